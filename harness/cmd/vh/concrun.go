package main

import (
	"bufio"
	"bytes"
	"errors"
	"flag"
	"fmt"
	"io"
	"math/rand"
	"os"
	"os/exec"
	"regexp"
	"runtime"
	"sort"
	"strconv"
	"strings"
	"sync"
	"sync/atomic"
	"time"

	"github.com/protobom/protobom/pkg/formats"
	"github.com/protobom/protobom/pkg/native"
	"github.com/protobom/protobom/pkg/reader"
	"github.com/protobom/protobom/pkg/sbom"
	"github.com/protobom/protobom/pkg/writer"
)

func init() {
	commands["conc-run"] = concRun
	commands["conc-child"] = concChild
	commands["conc-fresh"] = concFresh
}

// concFresh is run in a process of its own: its very first use of the writer package is the registration of a
// driver for a built-in format, sequentially or racing the first constructor call.
func concFresh(args []string) error {
	if len(args) > 0 && strings.HasPrefix(args[0], "unregister") {
		// the very first use of the writer package is the REMOVAL of a built-in format (sequentially, or racing the first
		// constructor calls): afterwards the format is gone
		done := make(chan struct{})
		if args[0] == "unregister-racing" {
			go func() {
				for i := 0; i < 4; i++ {
					writer.New()
				}
				close(done)
			}()
		} else {
			close(done)
		}
		writer.UnregisterSerializer(formats.CDX15JSON)
		<-done
		writer.New()
		got := "err"
		if s, err := writer.GetFormatSerializer(formats.CDX15JSON); err == nil && s != nil {
			got = "built-in"
		}
		fmt.Println("FRESH", got)
		return nil
	}
	racing := len(args) > 0 && args[0] == "racing"
	done := make(chan struct{})
	if racing {
		go func() { writer.New(); close(done) }()
	} else {
		close(done)
	}
	writer.RegisterSerializer(formats.CDX15JSON, &fakeSer{id: "mine"})
	<-done
	s, err := writer.GetFormatSerializer(formats.CDX15JSON)
	got := "err"
	if err == nil {
		if f, ok := s.(*fakeSer); ok {
			got = f.id
		} else {
			got = "built-in"
		}
	}
	fmt.Println("FRESH", got)
	return nil
}

// fake drivers: the document they return / the bytes they render reveal which driver served the call
type fakeUnser struct{ id string }

func (f *fakeUnser) Unserialize(_ io.Reader, _ *native.UnserializeOptions, _ interface{}) (*sbom.Document, error) {
	d := sbom.NewDocument()
	d.Metadata.Name = f.id
	return d, nil
}

type fakeSer struct{ id string }

func (f *fakeSer) Serialize(*sbom.Document, *native.SerializeOptions, interface{}) (interface{}, error) {
	runtime.Gosched() // widen the window between the two halves of a write
	return f.id, nil
}

// the rendered bytes name the driver that serialized AND the driver that rendered: one write is served by one driver
func (f *fakeSer) Render(doc interface{}, w io.Writer, _ *native.RenderOptions, _ interface{}) error {
	_, err := io.WriteString(w, doc.(string)+"|"+f.id)
	return err
}

var clock int64

func tick() int { return int(atomic.AddInt64(&clock, 1)) }

var gidRe = regexp.MustCompile(`^goroutine (\d+) `)

func goid() int {
	buf := make([]byte, 64)
	n := runtime.Stack(buf, false)
	m := gidRe.FindSubmatch(buf[:n])
	if m == nil {
		return -1
	}
	id, _ := strconv.Atoi(string(m[1]))
	return id
}

type linEvent struct {
	seq, gid int
	op, key  string
}

type concCall struct {
	G   int    `json:"g"`
	Op  string `json:"op"`
	Fmt string `json:"fmt"`
	Arg string `json:"arg"`
	Res string `json:"res"`
	Inv int    `json:"inv"`
	Ret int    `json:"ret"`
	Lin int    `json:"lin"`
	gid int
}

func vfmt(name string) formats.Format {
	return formats.Format("text/x-verif-" + name + "+json;version=1")
}

// concChild runs the scripts in this process (built with -race by the parent check).
func concChild(args []string) error {
	fs := flag.NewFlagSet("conc-child", flag.ExitOnError)
	out := fs.String("out", "", "trace file")
	seed := fs.Int64("seed", 1, "seed")
	n := fs.Int("n", 20, "histories")
	mode := fs.String("mode", "registry", "registry | readonly")
	fs.Parse(args)
	w, err := newNDWriter(*out)
	if err != nil {
		return err
	}
	defer w.close()
	r := rand.New(rand.NewSource(*seed))
	if *mode == "readonly" {
		return concReadonly(w, r, *n)
	}
	var linMu sync.Mutex
	var lins []linEvent
	installTracer(func(op, key string) {
		e := linEvent{seq: tick(), gid: goid(), op: op, key: key}
		linMu.Lock()
		lins = append(lins, e)
		linMu.Unlock()
	})
	fnames := []string{"f1", "f2"}
	spdxTV := []byte("SPDXVersion: SPDX-2.3\nDataLicense: CC0-1.0\n")
	realDoc, _, _ := writeDoc(tinyDoc(), formats.SPDX23JSON, 2)
	for sid := 1; sid <= *n; sid++ {
		// initial registry state (set sequentially)
		initial := map[string]any{}
		for _, f := range fnames {
			reader.UnregisterUnserializer(vfmt(f))
			writer.UnregisterSerializer(vfmt(f))
			initial["r:"+f], initial["w:"+f] = "", ""
			if r.Intn(2) == 0 {
				reader.RegisterUnserializer(vfmt(f), &fakeUnser{id: "d0"})
				initial["r:"+f] = "d0"
			}
			if r.Intn(2) == 0 {
				writer.RegisterSerializer(vfmt(f), &fakeSer{id: "s0"})
				initial["w:"+f] = "s0"
			}
		}
		linMu.Lock()
		lins = nil
		linMu.Unlock()
		nthreads := 2 + r.Intn(3)
		plans := make([][]concCall, nthreads)
		for g := range plans {
			for k, m := 0, 2+r.Intn(3); k < m; k++ {
				c := concCall{G: g + 1, Fmt: pick(r, fnames)}
				switch r.Intn(12) {
				case 0, 1:
					c.Op, c.Arg = "RRegister", fmt.Sprintf("d%d%d", g+1, k)
				case 2:
					c.Op = "RUnregister"
				case 3, 4:
					c.Op = "RGet"
				case 5, 6:
					c.Op = "Parse"
				case 7:
					c.Op, c.Arg = "WRegister", fmt.Sprintf("s%d%d", g+1, k)
				case 8:
					c.Op = "WUnregister"
				case 9:
					c.Op = "WGet"
					if r.Intn(2) == 0 {
						c.Op = "WWrite"
					}
				case 10:
					c.Op = "Sniff"
				default:
					c.Op = "NewParseReal"
				}
				plans[g] = append(plans[g], c)
			}
		}
		var wg sync.WaitGroup
		start := make(chan struct{})
		for g := range plans {
			wg.Add(1)
			go func(g int) {
				defer wg.Done()
				<-start
				me := goid()
				for k := range plans[g] {
					c := &plans[g][k]
					c.gid = me
					f := vfmt(c.Fmt)
					c.Inv = tick()
					func() {
						defer func() {
							if p := recover(); p != nil {
								c.Res = "panic"
							}
						}()
						switch c.Op {
						case "RRegister":
							reader.RegisterUnserializer(f, &fakeUnser{id: c.Arg})
							c.Res = "ok"
						case "RUnregister":
							reader.UnregisterUnserializer(f)
							c.Res = "ok"
						case "RGet":
							u, err := reader.GetFormatUnserializer(f)
							switch {
							case err != nil && u != nil:
								c.Res = "both"
							case err != nil:
								c.Res = "err"
							case u == nil:
								c.Res = "nilnil"
							default:
								c.Res = u.(*fakeUnser).id
							}
						case "Parse":
							doc, err := reader.New().ParseStreamWithOptions(bytes.NewReader([]byte("{}")), &reader.Options{Format: f})
							if err != nil {
								c.Res = "err"
							} else {
								c.Res = doc.Metadata.Name
							}
						case "WRegister":
							writer.RegisterSerializer(f, &fakeSer{id: c.Arg})
							c.Res = "ok"
						case "WUnregister":
							writer.UnregisterSerializer(f)
							c.Res = "ok"
						case "WWrite":
							var buf bytes.Buffer
							if err := writer.New().WriteStreamWithOptions(tinyDoc(), nopCloser{&buf}, &writer.Options{Format: f}); err != nil {
								c.Res = "err"
							} else if parts := strings.SplitN(buf.String(), "|", 2); len(parts) == 2 && parts[0] == parts[1] {
								c.Res = parts[0]
							} else {
								c.Res = "mixed:" + buf.String()
							}
						case "WGet":
							s, err := writer.GetFormatSerializer(f)
							switch {
							case err != nil:
								c.Res = "err"
							case s == nil:
								c.Res = "nilnil"
							default:
								c.Res = s.(*fakeSer).id
							}
						case "Sniff":
							sn := formats.Sniffer{}
							got, err := sn.SniffReader(bytes.NewReader(spdxTV))
							c.Res = string(got)
							if err != nil {
								c.Res = "err"
							}
						case "NewParseReal":
							// independent documents through freshly built readers and writers with options
							rd := reader.New(reader.WithFormatOptions("k", c.G))
							doc, err := rd.ParseStream(bytes.NewReader(realDoc))
							if err != nil || doc == nil {
								c.Res = "err"
								return
							}
							var buf bytes.Buffer
							wr := writer.New(writer.WithFormat(formats.CDX15JSON), writer.WithRenderOptions(&native.RenderOptions{Indent: c.G}))
							if err := wr.WriteStream(doc, nopCloser{&buf}); err != nil {
								c.Res = "err"
								return
							}
							used, _ := sniffOutput(buf.Bytes())
							c.Res = fmt.Sprintf("%s/%d/%v", used, wr.Options.RenderOptions.Indent, rd.Options.GetFormatOptions("k"))
						}
					}()
					c.Ret = tick()
				}
			}(g)
		}
		close(start)
		wg.Wait()
		// attach linearization points (hook events) to the calls of the same goroutine that enclose them
		linMu.Lock()
		all := append([]linEvent{}, lins...)
		linMu.Unlock()
		calls := []concCall{}
		for g := range plans {
			for _, c := range plans[g] {
				for _, le := range all {
					if le.gid == c.gid && le.seq > c.Inv && le.seq < c.Ret {
						c.Lin = le.seq
					}
				}
				calls = append(calls, c)
			}
		}
		sort.Slice(calls, func(i, j int) bool { return calls[i].Inv < calls[j].Inv })
		w.write(map[string]any{"op": "HIST", "sid": sid, "initial": initial, "calls": calls, "hooks": len(all)})
	}
	// stress: lookups and writes racing with register / unregister of the same format, many times; any lookup
	// that returns neither a driver nor an error, and any panic, is counted
	for round := 0; round < 3; round++ {
		f := vfmt("stress")
		var wNilNil, rNilNil, panics, writes int64
		stop := make(chan struct{})
		flipperDone := make(chan struct{})
		go func() {
			defer close(flipperDone)
			for {
				select {
				case <-stop:
					return
				default:
				}
				writer.RegisterSerializer(f, &fakeSer{id: "s"})
				reader.RegisterUnserializer(f, &fakeUnser{id: "d"})
				runtime.Gosched()
				writer.UnregisterSerializer(f)
				reader.UnregisterUnserializer(f)
			}
		}()
		var lookers sync.WaitGroup
		for g := 0; g < 3; g++ {
			lookers.Add(1)
			go func() {
				defer lookers.Done()
				for i := 0; i < 30000; i++ {
					func() {
						defer func() {
							if recover() != nil {
								atomic.AddInt64(&panics, 1)
							}
						}()
						if s, err := writer.GetFormatSerializer(f); err == nil && s == nil {
							atomic.AddInt64(&wNilNil, 1)
						}
						if u, err := reader.GetFormatUnserializer(f); err == nil && u == nil {
							atomic.AddInt64(&rNilNil, 1)
						}
						if i%50 == 0 {
							var buf bytes.Buffer
							if writer.New().WriteStreamWithOptions(tinyDoc(), nopCloser{&buf}, &writer.Options{Format: f}) == nil {
								atomic.AddInt64(&writes, 1)
							}
							reader.New().ParseStreamWithOptions(bytes.NewReader([]byte("{}")), &reader.Options{Format: f}) //nolint:errcheck
						}
					}()
				}
			}()
		}
		lookers.Wait()
		close(stop)
		<-flipperDone
		// second half: the format is registered before and re-registered continuously - it is registered the whole
		// time, so no lookup may report it missing
		var rMissing, wMissing int64
		g2 := vfmt("always")
		reader.RegisterUnserializer(g2, &fakeUnser{id: "d"})
		writer.RegisterSerializer(g2, &fakeSer{id: "s"})
		stop2 := make(chan struct{})
		flipper2 := make(chan struct{})
		go func() {
			defer close(flipper2)
			for i := 0; ; i++ {
				select {
				case <-stop2:
					return
				default:
				}
				reader.RegisterUnserializer(g2, &fakeUnser{id: fmt.Sprint("d", i%7)})
				writer.RegisterSerializer(g2, &fakeSer{id: fmt.Sprint("s", i%7)})
			}
		}()
		var lookers2 sync.WaitGroup
		for g := 0; g < 3; g++ {
			lookers2.Add(1)
			go func() {
				defer lookers2.Done()
				for i := 0; i < 30000; i++ {
					if _, err := reader.GetFormatUnserializer(g2); err != nil {
						atomic.AddInt64(&rMissing, 1)
					}
					if _, err := writer.GetFormatSerializer(g2); err != nil {
						atomic.AddInt64(&wMissing, 1)
					}
				}
			}()
		}
		lookers2.Wait()
		close(stop2)
		<-flipper2
		w.write(map[string]any{"op": "STRESS", "sid": 1000 + round, "reader_missing": rMissing, "writer_missing": wMissing, "writer_nilnil": wNilNil, "reader_nilnil": rNilNil, "panics": panics, "writes": writes})
	}
	return nil
}

// concReadonly: free-running goroutines perform read-only operations on ONE shared document (C11).
func concReadonly(w *ndWriter, r *rand.Rand, n int) error {
	for sid := 1; sid <= n; sid++ {
		o := listOpts{ids: idPool(5), rich: 0.6, types: edgeTypes2, maxNodes: 5}
		a := randList(r, o)
		b := shuffled(r, a)
		m := &gmachine{regs: map[string]*sbom.NodeList{"a": a, "b": b}}
		nthreads := 4
		var wg sync.WaitGroup
		start := make(chan struct{})
		names := make([][]string, nthreads)
		for g := 0; g < nthreads; g++ {
			for k := 0; k < 6; k++ {
				names[g] = append(names[g], pick(r, readonlyQueries))
			}
		}
		for g := 0; g < nthreads; g++ {
			wg.Add(1)
			go func(g int) {
				defer wg.Done()
				<-start
				for k, q := range names[g] {
					func() {
						defer func() { recover() }()
						m.query(q, a, b, map[string]any{"i": g + k})
						m.query(q, b, a, map[string]any{"i": g + k})
					}()
				}
			}(g)
		}
		close(start)
		wg.Wait()
		w.write(map[string]any{"op": "RO", "sid": sid, "ops": names})
	}
	return nil
}

var raceSiteRe = regexp.MustCompile(`(?m)^\s+(/\S+\.go:\d+)`)

// concRun starts the race-instrumented child and turns its race reports / aborts into events.
func concRun(args []string) error {
	fs := flag.NewFlagSet("conc-run", flag.ExitOnError)
	out := fs.String("out", "", "trace file")
	racebin := fs.String("racebin", "", "race-instrumented harness binary")
	fs.Int64("seed", 1, "")
	fs.Int("n", 20, "")
	fs.String("mode", "registry", "")
	fs.Parse(args)
	var pass []string
	for i := 0; i < len(args); i++ {
		if args[i] == "--out" || args[i] == "--racebin" {
			i++
			continue
		}
		pass = append(pass, args[i])
	}
	part := *out + ".child"
	cmd := exec.Command(*racebin, append([]string{"conc-child", "--out", part}, pass...)...)
	cmd.Env = append(os.Environ(), "GORACE=halt_on_error=0 exitcode=0")
	var stderr bytes.Buffer
	cmd.Stderr = &stderr
	// a call that never returns (a deadlock between a lookup and a registration, say) is an outcome, not a reason to wait:
	// the child gets a generous deadline and is killed after it
	runErr := cmd.Start()
	if runErr == nil {
		done := make(chan error, 1)
		go func() { done <- cmd.Wait() }()
		select {
		case runErr = <-done:
		case <-time.After(240 * time.Second):
			cmd.Process.Kill()
			<-done
			runErr = errors.New("hang: the concurrent calls did not all return within 240 s")
		}
	}
	w, err := newNDWriter(*out)
	if err != nil {
		return err
	}
	defer w.close()
	if f, err := os.Open(part); err == nil {
		sc := bufio.NewScanner(f)
		sc.Buffer(make([]byte, 1<<20), 1<<28)
		for sc.Scan() {
			w.w.Write(sc.Bytes())
			w.w.WriteByte('\n')
		}
		f.Close()
		os.Remove(part)
	}
	text := stderr.String()
	races := strings.Count(text, "WARNING: DATA RACE")
	sites := map[string]bool{}
	for _, m := range raceSiteRe.FindAllStringSubmatch(text, -1) {
		if strings.Contains(m[1], "/go-1.") || strings.Contains(m[1], "/pkg/mod/") || strings.Contains(m[1], "/harness/") {
			continue
		}
		parts := strings.Split(m[1], "/")
		sites[strings.Join(parts[len(parts)-2:], "/")] = true
	}
	sl := []string{}
	for s := range sites {
		sl = append(sl, s)
	}
	sort.Strings(sl)
	if len(sl) > 12 {
		sl = sl[:12]
	}
	abort := ""
	if runErr != nil {
		abort = runErr.Error()
		if i := strings.Index(text, "fatal error:"); i >= 0 {
			abort = strings.SplitN(text[i:], "\n", 2)[0]
		}
	}
	mode := "registry"
	for i, a := range pass {
		if a == "--mode" && i+1 < len(pass) {
			mode = pass[i+1]
		}
	}
	if mode == "registry" {
		// fresh processes (registry mode only)
		for _, variant := range []string{"sequential", "racing", "racing", "racing", "unregister", "unregister-racing", "unregister-racing"} {
			outb, err := exec.Command(*racebin, "conc-fresh", variant).CombinedOutput()
			got := "crash"
			if err == nil {
				for _, line := range strings.Split(string(outb), "\n") {
					if strings.HasPrefix(line, "FRESH ") {
						got = strings.TrimPrefix(line, "FRESH ")
					}
				}
			}
			if strings.Contains(string(outb), "WARNING: DATA RACE") {
				got = "race"
			}
			want := "mine"
			if strings.HasPrefix(variant, "unregister") {
				want = "err"
			}
			w.write(map[string]any{"op": "FRESH", "sid": 2000, "variant": variant, "got": got, "want": want})
		}
	}
	w.write(map[string]any{"op": "RACE", "sid": 0, "mode": mode, "races": races, "sites": sl, "abort": abort})
	return nil
}
