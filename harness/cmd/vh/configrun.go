package main

import (
	"bytes"
	"encoding/json"
	"flag"
	"fmt"
	"io"
	"math/rand"
	"os"
	"path/filepath"
	"strings"

	"github.com/protobom/protobom/pkg/formats"
	"github.com/protobom/protobom/pkg/native"
	"github.com/protobom/protobom/pkg/reader"
	"github.com/protobom/protobom/pkg/sbom"
	"github.com/protobom/protobom/pkg/storage"
	"github.com/protobom/protobom/pkg/writer"
)

func init() { commands["config-run"] = configRun }

var fmtNames = map[string]formats.Format{"cdx15": formats.CDX15JSON, "spdx23": formats.SPDX23JSON, "cdx14": formats.CDX14JSON,
	"spdx22": formats.SPDX22JSON} // spdx22: a format constant of the library that no serializer is registered for

func fmtName(f formats.Format) string {
	for k, v := range fmtNames {
		if v == f {
			return k
		}
	}
	return string(f)
}

// recDriver is a reader and writer driver that records the options each call hands to it.
type recDriver struct{ got map[string]any }

func (d *recDriver) Unserialize(_ io.Reader, _ *native.UnserializeOptions, fo interface{}) (*sbom.Document, error) {
	d.got = map[string]any{"fopt": foptString(fo)}
	return tinyDoc(), nil
}

func (d *recDriver) Serialize(_ *sbom.Document, _ *native.SerializeOptions, fo interface{}) (interface{}, error) {
	d.got = map[string]any{"fopt": foptString(fo)}
	return "native", nil
}

func (d *recDriver) Render(_ interface{}, w io.Writer, ro *native.RenderOptions, fo interface{}) error {
	d.got["renderfopt"] = foptString(fo)
	d.got["indent"] = "nil"
	if ro != nil {
		d.got["indent"] = fmt.Sprint(ro.Indent)
	}
	_, err := w.Write([]byte("{}"))
	return err
}

func foptString(fo interface{}) string {
	if fo == nil {
		return ""
	}
	if s, ok := fo.(string); ok {
		return s
	}
	return fmt.Sprintf("%v", fo)
}

const recFormat = formats.Format("application/x-verif-recording+json;version=1.0")

// a format identifier without a version suffix is a format identifier like any other
const recFormatBare = formats.Format("application/x-verif-recording+json")

// a driver that accepts the lookup and then fails (in Serialize or in Render)
const recFormatFailSer = formats.Format("application/x-verif-failing-serialize+json;version=1.0")
const recFormatFailRen = formats.Format("application/x-verif-failing-render+json;version=1.0")

type failDriver struct{ inRender bool }

func (d *failDriver) Serialize(_ *sbom.Document, _ *native.SerializeOptions, _ interface{}) (interface{}, error) {
	if !d.inRender {
		return nil, fmt.Errorf("verif: serialize refused")
	}
	return "native", nil
}

func (d *failDriver) Render(_ interface{}, _ io.Writer, _ *native.RenderOptions, _ interface{}) error {
	return fmt.Errorf("verif: render refused")
}

// format options are looked up under the driver's type name: the instance-level option uses the same key
var foptKey = fmt.Sprintf("%T", &recDriver{})

func writerCfg(w *writer.Writer) map[string]any {
	o := w.Options
	c := map[string]any{"format": fmtName(o.Format), "indent": "nil", "noclobber": "nil", "fopt": "", "store": "other"}
	if fsb, ok := w.Storage.(*storage.FileSystem); ok {
		c["store"] = fsb.Options.Path
	}
	if o.RenderOptions != nil {
		c["indent"] = fmt.Sprint(o.RenderOptions.Indent)
	}
	if o.StoreOptions != nil {
		c["noclobber"] = fmt.Sprint(o.StoreOptions.NoClobber)
	}
	if v, ok := o.GetFormatOptions(foptKey).(string); ok {
		c["fopt"] = v
	}
	return c
}

func readerCfg(r *reader.Reader) map[string]any {
	o := r.Options
	c := map[string]any{"fopt": "", "retr": "", "format": fmtName(o.Format)}
	if v, ok := o.GetFormatOptions(foptKey).(string); ok {
		c["fopt"] = v
	}
	if o.RetrieveOptions != nil {
		c["retr"], _ = o.RetrieveOptions.BackendOptions.(string)
	}
	return c
}

func tinyDoc() *sbom.Document {
	d := sbom.NewDocument()
	d.Metadata.Id = "urn:uuid:3e671687-395b-41f5-a30f-a58921a69b79"
	d.Metadata.Version = "1"
	d.NodeList.AddRootNode(&sbom.Node{Id: "root", Name: "root"})
	return d
}

// sniffOutput tells the format and indentation of writer output with encoding/json only.
func sniffOutput(b []byte) (string, string) {
	var top struct {
		BomFormat   string `json:"bomFormat"`
		SpecVersion string `json:"specVersion"`
		SPDXVersion string `json:"spdxVersion"`
	}
	if json.Unmarshal(b, &top) != nil {
		return "garbage", ""
	}
	indent := "0"
	lines := strings.SplitN(string(b), "\n", 3)
	if len(lines) > 1 {
		indent = fmt.Sprint(len(lines[1]) - len(strings.TrimLeft(lines[1], " ")))
	}
	switch {
	case strings.EqualFold(top.BomFormat, "CycloneDX"):
		return "cdx" + strings.ReplaceAll(top.SpecVersion, ".", ""), indent
	case top.SPDXVersion == "SPDX-2.3":
		return "spdx23", indent
	}
	return "unknown", indent
}

var sharedCallOpts *writer.Options
var nshared int

func configRun(args []string) error {
	fs := flag.NewFlagSet("config-run", flag.ExitOnError)
	out := fs.String("out", "", "trace file")
	seed := fs.Int64("seed", 1, "seed")
	n := fs.Int("n", 50, "histories")
	length := fs.Int("len", 8, "calls per history")
	replay := fs.String("replay", "", "replay file")
	scripts := fs.String("scripts", "", "scripts exported by TLC from Config.tla (ndjson, calls only)")
	fs.Parse(args)
	w, err := newNDWriter(*out)
	if err != nil {
		return err
	}
	defer w.close()
	tmp, err := os.MkdirTemp("", "vh-config-")
	if err != nil {
		return err
	}
	defer os.RemoveAll(tmp)

	rec := &recDriver{}
	reader.RegisterUnserializer(recFormat, rec)
	writer.RegisterSerializer(recFormat, rec)
	writer.RegisterSerializer(recFormatBare, rec)
	writer.RegisterSerializer(recFormatFailSer, &failDriver{})
	writer.RegisterSerializer(recFormatFailRen, &failDriver{inRender: true})
	defer reader.UnregisterUnserializer(recFormat)
	defer writer.UnregisterSerializer(recFormat)
	defer writer.UnregisterSerializer(recFormatBare)
	defer writer.UnregisterSerializer(recFormatFailSer)
	defer writer.UnregisterSerializer(recFormatFailRen)

	var ws []*writer.Writer
	var rs []*reader.Reader
	observe := func(ev map[string]any) {
		wi, ri := []any{}, []any{}
		for _, x := range ws {
			wi = append(wi, writerCfg(x))
		}
		for _, x := range rs {
			ri = append(ri, readerCfg(x))
		}
		ev["insts"], ev["rinsts"] = wi, ri
		ev["fresh"], ev["rfresh"] = writerCfg(writer.New()), readerCfg(reader.New())
		w.write(ev)
	}
	exec := func(ev map[string]any) {
		opts := obj(ev, "opts")
		switch str(ev, "op") {
		case "Reset":
			ws, rs, sharedCallOpts = nil, nil, nil
			w.write(ev)
			return
		case "NewWriter":
			var o []writer.WriterOption
			// the order in which options are passed must not matter: use the order of the script
			for _, k := range strs(ev, "order") {
				v, _ := opts[k].(string)
				switch k {
				case "format":
					o = append(o, writer.WithFormat(fmtNames[v]))
				case "indent":
					var i int
					fmt.Sscan(v, &i)
					o = append(o, writer.WithRenderOptions(&native.RenderOptions{Indent: i}))
				case "noclobber":
					o = append(o, writer.WithStoreOptions(&storage.StoreOptions{NoClobber: v == "true"}))
				case "fopt":
					o = append(o, writer.WithFormatOptions(foptKey, v))
				case "ser": // no observable content (an empty struct): the call itself must not disturb anything else
					o = append(o, writer.WithSerializeOptions(&native.SerializeOptions{}))
				}
			}
			ws = append(ws, writer.New(o...))
		case "NewReader":
			var o []reader.ReaderOption
			for _, k := range strs(ev, "order") {
				v, _ := opts[k].(string)
				switch k {
				case "fopt":
					o = append(o, reader.WithFormatOptions(foptKey, v))
				case "retr":
					o = append(o, reader.WithRetrieveOptions(&storage.RetrieveOptions{BackendOptions: v}))
				case "unser":
					o = append(o, reader.WithUnserializeOptions(&native.UnserializeOptions{}))
				}
			}
			rs = append(rs, reader.New(o...))
		case "Write":
			i := integer(ev, "i") - 1
			if i < 0 || i >= len(ws) {
				return
			}
			var buf bytes.Buffer
			var err error
			if cf := str(ev, "callfmt"); cf != "" {
				o := *ws[i].Options
				o.Format = fmtNames[cf]
				err = ws[i].WriteStreamWithOptions(tinyDoc(), nopCloser{&buf}, &o)
			} else {
				err = ws[i].WriteStream(tinyDoc(), nopCloser{&buf})
			}
			if err != nil {
				ev["used"], ev["usedindent"] = "error", ""
			} else {
				ev["used"], ev["usedindent"] = sniffOutput(buf.Bytes())
			}
		case "WriteShared":
			// one per-call options value (no format of its own) reused for calls on different writers
			i := integer(ev, "i") - 1
			if i < 0 || i >= len(ws) {
				return
			}
			if sharedCallOpts == nil {
				sharedCallOpts = &writer.Options{}
			}
			var buf bytes.Buffer
			var err error
			if nshared++; nshared%2 == 0 {
				// the file-writing entry point takes the same per-call options value
				path := filepath.Join(tmp, fmt.Sprintf("shared-%d.json", nshared))
				if err = ws[i].WriteFileWithOptions(tinyDoc(), path, sharedCallOpts); err == nil {
					data, _ := os.ReadFile(path)
					buf.Write(data)
				}
				ev["via"] = "file"
			} else {
				err = ws[i].WriteStreamWithOptions(tinyDoc(), nopCloser{&buf}, sharedCallOpts)
			}
			if err != nil {
				ev["used"], ev["usedindent"] = "error", ""
			} else {
				ev["used"], ev["usedindent"] = sniffOutput(buf.Bytes())
			}
			ev["callfmt"] = ""
			ev["sharedfmt"] = fmtName(sharedCallOpts.Format)
			ev["op"] = "Write"
			ev["shared"] = true
		case "SetStorePath":
			// configure the default backend of one writer: nobody else's backend may follow
			i := integer(ev, "i") - 1
			if i < 0 || i >= len(ws) {
				return
			}
			if fsb, ok := ws[i].Storage.(*storage.FileSystem); ok {
				fsb.Options.Path = str(ev, "path")
			}
		case "Read":
			// parse a document of the given format through reader instance i with auto-detection
			i := integer(ev, "i") - 1
			if i < 0 || i >= len(rs) {
				return
			}
			data, _, _ := writeDoc(tinyDoc(), fmtNames[str(ev, "which")], 2)
			doc, err := rs[i].ParseStream(bytes.NewReader(data))
			switch {
			case err != nil:
				ev["got"] = "error"
			case doc == nil || doc.NodeList == nil || len(doc.NodeList.Nodes) != 1 || doc.NodeList.Nodes[0].Name != "root":
				ev["got"] = "wrong-document"
			default:
				ev["got"] = "ok"
			}
		case "ParseCall":
			// options given to one parse call (format options for the driver) must reach the driver for that call
			i := integer(ev, "i") - 1
			if i < 0 || i >= len(rs) {
				return
			}
			o := &reader.Options{Format: recFormat, UnserializeOptions: &native.UnserializeOptions{}}
			if v := str(ev, "callfopt"); v != "" {
				o.SetFormatOptions(rec, v)
			}
			rec.got = nil
			if _, err := rs[i].ParseStreamWithOptions(bytes.NewReader([]byte("{}")), o); err != nil || rec.got == nil {
				ev["gotfopt"] = "error"
			} else {
				ev["gotfopt"] = rec.got["fopt"]
			}
		case "WriteCall":
			i := integer(ev, "i") - 1
			if i < 0 || i >= len(ws) {
				return
			}
			o := &writer.Options{Format: recFormat}
			switch str(ev, "variant") {
			case "bare": // the per-call format has no ";version=" part
				o.Format = recFormatBare
			case "fail-serialize": // the call fails inside the driver: the instance is still what it was afterwards
				o.Format = recFormatFailSer
			case "fail-render":
				o.Format = recFormatFailRen
			}
			if v := str(ev, "callfopt"); v != "" {
				o.SetFormatOptions(rec, v)
			}
			if v := str(ev, "callindent"); v != "" {
				var k int
				fmt.Sscan(v, &k)
				o.RenderOptions = &native.RenderOptions{Indent: k}
			}
			rec.got = nil
			var buf bytes.Buffer
			if err := ws[i].WriteStreamWithOptions(tinyDoc(), nopCloser{&buf}, o); strings.HasPrefix(str(ev, "variant"), "fail-") {
				// only the persistence clauses apply (the instances are observed after every call)
				ev["gotfopt"], ev["gotrenderfopt"], ev["gotindent"] = "failed", "failed", "failed"
				if err == nil {
					ev["gotfopt"] = "no-error"
				}
			} else if err != nil || rec.got == nil {
				ev["gotfopt"], ev["gotrenderfopt"], ev["gotindent"] = "error", "error", "error"
			} else {
				ev["gotfopt"], ev["gotrenderfopt"], ev["gotindent"] = rec.got["fopt"], rec.got["renderfopt"], rec.got["indent"]
			}
		case "StoreNoClobber":
			i := integer(ev, "i") - 1
			if i < 0 || i >= len(ws) {
				return
			}
			dir, _ := os.MkdirTemp(tmp, "store-")
			prev := ws[i].Storage
			ws[i].Storage = &storage.FileSystem{Options: storage.FileSystemOptions{Path: dir}}
			first := ws[i].Store(tinyDoc())
			second := ws[i].Store(tinyDoc())
			ws[i].Storage = prev
			ev["first"], ev["second"] = okErr(first), okErr(second)
		}
		observe(ev)
	}
	if *replay != "" {
		return readND(*replay, func(ev map[string]any) error { exec(ev); return nil })
	}
	if *scripts != "" {
		// behaviours of the specification: the options of a constructor call are given in sorted order
		err := readND(*scripts, func(ev map[string]any) error {
			if str(ev, "op") == "End" {
				return nil
			}
			if opts := obj(ev, "opts"); opts != nil || str(ev, "op") == "NewWriter" {
				order := []string{}
				for k := range opts {
					order = append(order, k)
				}
				sortStrings(order)
				ev["order"] = order
				if opts == nil {
					ev["opts"] = map[string]any{}
				}
			}
			exec(ev)
			return nil
		})
		if err != nil {
			return err
		}
	}
	r := rand.New(rand.NewSource(*seed))
	subset := func(vals map[string][]string) (map[string]any, []string) {
		o, order := map[string]any{}, []string{}
		keys := []string{}
		for k := range vals {
			keys = append(keys, k)
		}
		sortStrings(keys)
		r.Shuffle(len(keys), func(a, b int) { keys[a], keys[b] = keys[b], keys[a] })
		for _, k := range keys {
			if r.Intn(2) == 0 {
				o[k] = pick(r, vals[k])
				order = append(order, k)
			}
		}
		return o, order
	}
	wvals := map[string][]string{"format": {"cdx15", "spdx23", "cdx15", "spdx23", "spdx22"}, "indent": {"2", "8"}, "noclobber": {"true"}, "fopt": {"v1", "v2"}, "ser": {"on"}}
	rvals := map[string][]string{"fopt": {"v1", "v2"}, "retr": {"x", "y"}, "unser": {"on"}}
	for sid := 1; sid <= *n; sid++ {
		exec(map[string]any{"op": "Reset", "sid": sid})
		nw, nr := 0, 0
		for j := 0; j < *length; j++ {
			switch k := r.Intn(12); {
			case k == 10 && nr > 0:
				exec(map[string]any{"op": "ParseCall", "sid": sid, "i": 1 + r.Intn(nr), "callfopt": pick(r, []string{"", "c1", "c2"})})
			case k == 11 && nw > 0:
				exec(map[string]any{"op": "WriteCall", "sid": sid, "i": 1 + r.Intn(nw), "callfopt": pick(r, []string{"", "c1", "c2"}),
					"callindent": pick(r, []string{"", "3"}), "variant": pick(r, []string{"", "", "bare", "fail-serialize", "fail-render"})})
			case k >= 10:
				o, order := subset(rvals)
				exec(map[string]any{"op": "NewReader", "sid": sid, "opts": o, "order": order})
				nr++
			case k == 8 && nw > 0:
				exec(map[string]any{"op": "WriteShared", "sid": sid, "i": 1 + r.Intn(nw)})
			case k == 9 && nw > 0:
				exec(map[string]any{"op": "SetStorePath", "sid": sid, "i": 1 + r.Intn(nw), "path": pick(r, []string{"/tmp/vh-nowhere-a", "/tmp/vh-nowhere-b"})})
			case k <= 1 || nw == 0:
				o, order := subset(wvals)
				exec(map[string]any{"op": "NewWriter", "sid": sid, "opts": o, "order": order})
				nw++
			case k == 2:
				o, order := subset(rvals)
				exec(map[string]any{"op": "NewReader", "sid": sid, "opts": o, "order": order})
				nr++
			case k >= 6 && nr > 0:
				exec(map[string]any{"op": "Read", "sid": sid, "i": 1 + r.Intn(nr), "which": pick(r, []string{"cdx15", "spdx23", "cdx14"})})
			case k == 3:
				exec(map[string]any{"op": "Write", "sid": sid, "i": 1 + r.Intn(nw), "callfmt": ""})
			case k == 4:
				exec(map[string]any{"op": "Write", "sid": sid, "i": 1 + r.Intn(nw), "callfmt": pick(r, []string{"cdx15", "spdx23", "cdx15", "spdx23", "spdx22"})})
			default:
				exec(map[string]any{"op": "StoreNoClobber", "sid": sid, "i": 1 + r.Intn(nw)})
			}
		}
	}
	return nil
}

func okErr(err error) string {
	if err == nil {
		return "ok"
	}
	return "err"
}
