package main

import (
	"bytes"
	"encoding/hex"
	"flag"
	"fmt"
	"google.golang.org/protobuf/encoding/protowire"
	"os"
	"os/exec"
	"path/filepath"
	"regexp"
	"runtime"
	"sort"
	"strconv"
	"strings"
	"syscall"

	"github.com/protobom/protobom/pkg/sbom"
	"github.com/protobom/protobom/pkg/storage"
	"verifharness/proj"
)

func init() {
	commands["crash-child"] = crashChild
	commands["crash-run"] = crashRun
}

const crashSyscalls = "openat,write,pwrite64,writev,fsync,fdatasync,close,renameat,renameat2,rename,fchmod,fchmodat,unlinkat,unlink,mkdirat,mkdir,ftruncate,truncate,linkat,link"

type sysCall struct {
	name    string
	args    string
	ret     string
	paths   []string // decoded path annotations / string arguments
	data    []byte   // data of a write
	ordinal int
}

var hexRun = regexp.MustCompile(`(?:\\x[0-9a-f]{2})+`)

func unhex(s string) string {
	b, err := hex.DecodeString(strings.ReplaceAll(s, "\\x", ""))
	if err != nil {
		return ""
	}
	return string(b)
}

// parseStrace returns the calls of the main tracee (first pid in the log), in order.
func parseStrace(path string) ([]sysCall, error) {
	raw, err := os.ReadFile(path)
	if err != nil {
		return nil, err
	}
	var calls []sysCall
	mainPid := ""
	lineRe := regexp.MustCompile(`^(\d+)\s+(\w+)\((.*)\)\s+=\s+(.*)$`)
	for _, line := range strings.Split(string(raw), "\n") {
		m := lineRe.FindStringSubmatch(line)
		if m == nil {
			continue
		}
		if mainPid == "" {
			mainPid = m[1]
		}
		if m[1] != mainPid {
			continue
		}
		c := sysCall{name: m[2], args: m[3], ret: m[4], ordinal: len(calls) + 1}
		for _, h := range hexRun.FindAllString(m[3]+" "+m[4], -1) {
			c.paths = append(c.paths, unhex(h))
		}
		if strings.HasPrefix(c.name, "write") || c.name == "pwrite64" {
			// write(fd<path>, "data", len): the data is the first quoted string
			if i := strings.Index(m[3], ", \""); i >= 0 {
				rest := m[3][i+3:]
				if j := strings.Index(rest, "\""); j >= 0 {
					c.data = []byte(unhex(rest[:j]))
				}
			}
		}
		calls = append(calls, c)
	}
	return calls, nil
}

func copyDir(src, dst string) error {
	return exec.Command("cp", "-a", src, dst).Run()
}

func retrieveChild(self, dir, id string) (string, any) {
	out, err := exec.Command(self, "crash-child", "--dir", dir, "--id", id, "--op", "retrieve").Output()
	if err != nil {
		return "exit", map[string]any{"nil": true}
	}
	lines := strings.SplitN(string(out), "\n", 3)
	if len(lines) >= 2 && lines[0] == "RESULT ok" {
		var v any
		jsonUnmarshal([]byte(lines[1]), &v)
		return "ok", v
	}
	if lines[0] == "RESULT err" {
		return "err", map[string]any{"nil": true}
	}
	return "garbled", map[string]any{"nil": true}
}

func showDoc(self, id, variant string) any {
	out, _ := exec.Command(self, "crash-child", "--id", id, "--variant", variant, "--op", "show").Output()
	var v any
	jsonUnmarshal(bytes.TrimSpace(out), &v)
	return v
}

// crashRun enumerates the crash points of a real Store at system-call granularity.
func crashRun(args []string) error {
	fs := flag.NewFlagSet("crash-run", flag.ExitOnError)
	out := fs.String("out", "", "trace file")
	tornMode := fs.String("torn", "sample", "sample | all")
	fs.Parse(args)
	w, err := newNDWriter(*out)
	if err != nil {
		return err
	}
	defer w.close()
	self, _ := os.Executable()
	base, err := os.MkdirTemp("", "vh-crash-")
	if err != nil {
		return err
	}
	defer os.RemoveAll(base)
	env := append(os.Environ(), "GOMAXPROCS=1")
	noclobber, tmpdirEnv := false, ""
	store := func(dir, id, variant string, strace ...string) error {
		argv := append(append([]string{}, strace...), self, "crash-child", "--dir", dir, "--id", id, "--variant", variant, "--op", "store")
		if noclobber && len(strace) > 0 { // only the store under observation; the preparing stores are plain
			argv = append(argv, "--noclobber")
		}
		cmd := exec.Command(argv[0], argv[1:]...)
		cmd.Env = env
		if tmpdirEnv != "" && len(strace) > 0 {
			cmd.Env = append(append([]string{}, env...), "TMPDIR="+tmpdirEnv)
		}
		return cmd.Run()
	}
	const id, other = "urn:doc:crash-subject", "urn:doc:bystander"
	oldDoc, newDoc, otherDoc, shortDoc := showDoc(self, id, "old"), showDoc(self, id, "new"), showDoc(self, other, "other"), showDoc(self, id, "s")
	// a directory on another file system, to be offered as TMPDIR: a store must not depend on where TMPDIR is
	elsewhere := ""
	if st1, err1 := os.Stat("/dev/shm"); err1 == nil {
		if st2, err2 := os.Stat(base); err2 == nil {
			if a, ok1 := st1.Sys().(*syscall.Stat_t); ok1 {
				if b, ok2 := st2.Sys().(*syscall.Stat_t); ok2 && a.Dev != b.Dev {
					if d, err := os.MkdirTemp("/dev/shm", "vh-crash-tmp-"); err == nil {
						elsewhere = d
						defer os.RemoveAll(d)
					}
				}
			}
		}
	}
	sid := 0
	scenarios := []string{"first-absent-dir", "first", "overwrite", "first-noclobber", "first-absent-dir-noclobber"}
	if elsewhere != "" {
		scenarios = append(scenarios, "overwrite-tmpdir-elsewhere", "first-tmpdir-elsewhere")
	}
	for _, scenarioFull := range scenarios {
		sid++
		scenario := strings.TrimSuffix(strings.TrimSuffix(scenarioFull, "-noclobber"), "-tmpdir-elsewhere")
		noclobber = strings.HasSuffix(scenarioFull, "-noclobber")
		tmpdirEnv = ""
		if strings.HasSuffix(scenarioFull, "-tmpdir-elsewhere") {
			tmpdirEnv = elsewhere
		}
		prep := func(dir string) {
			switch scenario {
			case "first":
				os.MkdirAll(dir, 0o755)
				store(dir, other, "other")
			case "overwrite":
				os.MkdirAll(dir, 0o755)
				store(dir, other, "other")
				store(dir, id, "old")
			}
		}
		// dry run: learn the system calls of the store
		dry := filepath.Join(base, fmt.Sprintf("dry-%d", sid))
		prep(dry)
		before := listTree(dry)
		log := filepath.Join(base, "strace.log")
		if err := store(dry, id, "new", "strace", "-f", "-y", "-xx", "-s", "10000000", "-o", log, "-e", "trace="+crashSyscalls); err != nil {
			return fmt.Errorf("dry run under strace failed: %v", err)
		}
		calls, err := parseStrace(log)
		if err != nil {
			return err
		}
		begin, end := 0, 0
		for _, c := range calls {
			if c.name == "write" && string(c.data) == "STORE-BEGIN\n" {
				begin = c.ordinal
			}
			if c.name == "write" && string(c.data) == "STORE-END\n" {
				end = c.ordinal
			}
		}
		if begin == 0 || end == 0 {
			return fmt.Errorf("markers not found in the system call log (%d calls)", len(calls))
		}
		// which file is the final entry: the one that exists after the complete run and did not before
		final := ""
		for p := range listTree(dry) {
			if !before[p] || scenario == "overwrite" {
				if st, err := os.Stat(filepath.Join(dry, p)); err == nil && !st.IsDir() {
					if d, _ := retrieveChild(self, dry, id); d == "ok" {
						// the entry whose removal makes the retrieve fail
						tmp := filepath.Join(base, "probe")
						os.Rename(filepath.Join(dry, p), tmp)
						if d2, _ := retrieveChild(self, dry, id); d2 != "ok" {
							final = p
						}
						os.Rename(tmp, filepath.Join(dry, p))
					}
				}
			}
		}
		oldLen, newLen := 0, 0
		if st, err := os.Stat(filepath.Join(dry, final)); err == nil {
			newLen = int(st.Size())
		}
		if scenario == "overwrite" {
			probe := filepath.Join(base, "oldprobe")
			prep(probe)
			if st, err := os.Stat(filepath.Join(probe, final)); err == nil {
				oldLen = int(st.Size())
			}
			os.RemoveAll(probe)
		}
		classify := func(p string) string {
			rel, err := filepath.Rel(dry, p)
			switch {
			case err != nil || strings.HasPrefix(rel, ".."):
				if p == dry {
					return "dir"
				}
				return "outside"
			case rel == ".":
				return "dir"
			case rel == final:
				return "final"
			default:
				return "tmp"
			}
		}
		w.write(map[string]any{"op": "CrashReset", "sid": sid, "scenario": scenarioFull, "oldlen": oldLen, "newlen": newLen,
			"old": oldDoc, "new": newDoc, "other": otherDoc, "short": shortDoc, "overwrite": scenario == "overwrite"})
		// the abstract system call sequence of the store, for the model
		for _, c := range calls[begin : end-1] {
			ev := map[string]any{"op": "Syscall", "sid": sid, "name": c.name, "ordinal": c.ordinal, "target": "none", "target2": "none", "len": len(c.data), "flags": ""}
			var targets []string
			for _, p := range c.paths {
				if strings.HasPrefix(p, dry) {
					targets = append(targets, classify(p))
				}
			}
			if len(targets) > 0 {
				ev["target"] = targets[0]
			}
			if len(targets) > 1 {
				ev["target2"] = targets[len(targets)-1]
			}
			fl := []string{}
			for _, f := range []string{"O_CREAT", "O_EXCL", "O_TRUNC", "O_WRONLY", "O_RDWR", "O_APPEND"} {
				if strings.Contains(c.args, f) {
					fl = append(fl, f)
				}
			}
			ev["flags"] = strings.Join(fl, "|")
			if strings.Contains(c.ret, "-1 E") {
				ev["name"] = c.name + "-failed"
			}
			w.write(ev)
		}
		// real crashes: kill at the entry of every call from the first of the store to the end marker
		crash := func(n int, torn int, data []byte, target string) {
			ev0torn := false
			dir := filepath.Join(base, fmt.Sprintf("c-%d-%d-%d", sid, n, torn))
			prep(dir)
			// strace counts invocations per system call name: kill at the k-th call of this name on the main tracee
			k := 0
			for _, c := range calls[:n] {
				if c.name == calls[n-1].name {
					k++
				}
			}
			store(dir, id, "new", "strace", "-f", "-o", "/dev/null", "-e", "trace="+crashSyscalls,
				"-e", "inject="+calls[n-1].name+":signal=SIGKILL:when="+strconv.Itoa(k))
			if torn >= 0 {
				// the write had been cut after torn bytes: complete the state by hand
				tgt := strings.Replace(target, dry, dir, 1)
				f, err := os.OpenFile(tgt, os.O_WRONLY|os.O_APPEND, 0)
				if err != nil {
					// a temporary file has another random name in this run than in the recorded one: it is the (only, still
					// empty) file with the same stem
					if i := strings.LastIndex(tgt, ".tmp-"); i > 0 {
						if ms, _ := filepath.Glob(tgt[:i] + ".tmp-*"); len(ms) > 0 {
							sort.Strings(ms)
							for _, m := range ms {
								if st, e2 := os.Stat(m); e2 == nil && st.Size() == 0 {
									f, err = os.OpenFile(m, os.O_WRONLY|os.O_APPEND, 0)
									break
								}
							}
						}
					}
				}
				if err == nil {
					f.Write(data[:torn])
					f.Close()
					ev0torn = true
				}
			}
			listing := []string{}
			for p := range listTree(dir) {
				listing = append(listing, p)
			}
			sort.Strings(listing)
			ev := map[string]any{"op": "Crash", "sid": sid, "scenario": scenarioFull, "point": n, "torn": torn, "call": calls[n-1].name,
				"nfiles": len(listing), "overwrite": scenario == "overwrite", "hasother": scenario != "first-absent-dir", "tornapplied": ev0torn}
			ev["id_res"], ev["id_doc"] = retrieveChild(self, dir, id)
			ev["other_res"], ev["other_doc"] = retrieveChild(self, dir, other)
			// recovery: after the crash a complete store of another (shorter) document must simply work
			if err := store(dir, id, "s"); err != nil {
				ev["after_res"], ev["after_doc"] = "store-failed", map[string]any{"nil": true}
			} else {
				ev["after_res"], ev["after_doc"] = retrieveChild(self, dir, id)
			}
			w.write(ev)
			os.RemoveAll(dir)
		}
		for n := begin + 1; n <= end; n++ {
			crash(n, -1, nil, "")
			c := calls[n-1]
			if len(c.data) > 0 && len(c.paths) > 0 && strings.HasPrefix(c.paths[0], dry) {
				ks := []int{1, len(c.data) / 2, len(c.data) - 1}
				// the dangerous prefixes of a protobuf message are those that end on a field boundary: they decode
				ks = append(ks, fieldBoundaries(c.data)...)
				if *tornMode == "all" {
					ks = nil
					for k := 1; k < len(c.data); k++ {
						ks = append(ks, k)
					}
				}
				for _, k := range ks {
					if k > 0 && k < len(c.data) {
						crash(n, k, c.data, c.paths[0])
					}
				}
			}
		}
		os.RemoveAll(dry)
	}
	return nil
}

// fieldBoundaries lists the offsets at which a top-level field of a protobuf message ends (and, one level down,
// inside the first two length-delimited fields): a write torn there leaves a prefix that decodes without error.
func fieldBoundaries(data []byte) []int {
	var out []int
	var walk func(b []byte, base, depth int)
	walk = func(b []byte, base, depth int) {
		off := 0
		for off < len(b) {
			num, typ, n := protowire.ConsumeTag(b[off:])
			if n < 0 || num <= 0 {
				return
			}
			m := protowire.ConsumeFieldValue(num, typ, b[off+n:])
			if m < 0 {
				return
			}
			if typ == protowire.BytesType && depth < 1 {
				_, l := protowire.ConsumeVarint(b[off+n:])
				walk(b[off+n+l:off+n+m], base+off+n+l, depth+1)
			}
			off += n + m
			if base+off < len(data) {
				out = append(out, base+off)
			}
		}
	}
	walk(data, 0, 0)
	if len(out) > 12 {
		out = out[:12]
	}
	return out
}

func crashDoc(id, variant string) *sbom.Document {
	d := sbom.NewDocument()
	d.Metadata.Id = id
	if variant == "s" { // a much shorter document (follow-up store after a crash)
		d.Metadata.Name = "s"
		d.NodeList.AddRootNode(&sbom.Node{Id: "s"})
		return d
	}
	d.Metadata.Name = "document-" + variant
	d.Metadata.Comment = "payload of the " + variant + " version; long enough to be torn in several places ........................................"
	for i := 0; i < 4; i++ {
		d.NodeList.AddRootNode(&sbom.Node{Id: fmt.Sprintf("%s-node-%d", variant, i), Name: "n" + variant, Version: "1.0"})
	}
	return d
}

// crashChild performs exactly one Store or Retrieve on the real backend, pinned to the main thread
// so that a system-call level observer sees all of its calls on one tracee.
func crashChild(args []string) error {
	runtime.LockOSThread()
	fs := flag.NewFlagSet("crash-child", flag.ExitOnError)
	dir := fs.String("dir", "", "")
	id := fs.String("id", "", "")
	variant := fs.String("variant", "new", "")
	op := fs.String("op", "store", "")
	nc := fs.Bool("noclobber", false, "")
	fs.Parse(args)
	backend := &storage.FileSystem{Options: storage.FileSystemOptions{Path: *dir}}
	switch *op {
	case "store":
		os.Stdout.WriteString("STORE-BEGIN\n")
		err := backend.Store(crashDoc(*id, *variant), &storage.StoreOptions{NoClobber: *nc})
		os.Stdout.WriteString("STORE-END\n")
		if err != nil {
			fmt.Println("ERR", err)
			os.Exit(3)
		}
	case "retrieve":
		doc, err := backend.Retrieve(*id, nil)
		if err != nil {
			fmt.Println("RESULT err")
			return nil
		}
		fmt.Println("RESULT ok")
		fmt.Println(canon(proj.Doc(doc)))
	case "show":
		fmt.Println(canon(proj.Doc(crashDoc(*id, *variant))))
	}
	return nil
}
