package main

import (
	"bytes"
	"encoding/json"
	"flag"
	"fmt"
	"math/rand"
	"os"
	"sort"
	"strconv"
	"strings"
	"time"

	"github.com/protobom/protobom/pkg/formats"
	"github.com/protobom/protobom/pkg/sbom"
)

func init() {
	commands["fault-paths"] = faultPaths
	commands["fault-run"] = faultRun
}

// ---------------------------------------------------------------------------
// an ordered JSON tree that can also express what encoding/json cannot (repeated members)

type jnode struct {
	kind string // object | array | string | number | bool | null
	keys []string
	kids []*jnode // members (object, parallel to keys) or elements (array)
	raw  string   // scalar token text
}

func parseJSON(data []byte) (*jnode, error) {
	dec := json.NewDecoder(bytes.NewReader(data))
	dec.UseNumber()
	var rec func() (*jnode, error)
	rec = func() (*jnode, error) {
		tok, err := dec.Token()
		if err != nil {
			return nil, err
		}
		switch t := tok.(type) {
		case json.Delim:
			if t == '{' {
				n := &jnode{kind: "object"}
				for dec.More() {
					k, err := dec.Token()
					if err != nil {
						return nil, err
					}
					v, err := rec()
					if err != nil {
						return nil, err
					}
					n.keys = append(n.keys, k.(string))
					n.kids = append(n.kids, v)
				}
				dec.Token()
				return n, nil
			}
			n := &jnode{kind: "array"}
			for dec.More() {
				v, err := rec()
				if err != nil {
					return nil, err
				}
				n.kids = append(n.kids, v)
			}
			dec.Token()
			return n, nil
		case string:
			b, _ := json.Marshal(t)
			return &jnode{kind: "string", raw: string(b)}, nil
		case json.Number:
			return &jnode{kind: "number", raw: t.String()}, nil
		case bool:
			return &jnode{kind: "bool", raw: strconv.FormatBool(t)}, nil
		default:
			return &jnode{kind: "null", raw: "null"}, nil
		}
	}
	return rec()
}

func (n *jnode) clone() *jnode {
	c := &jnode{kind: n.kind, raw: n.raw, keys: append([]string{}, n.keys...)}
	for _, k := range n.kids {
		c.kids = append(c.kids, k.clone())
	}
	return c
}

func (n *jnode) render(b *bytes.Buffer) {
	switch n.kind {
	case "object":
		b.WriteByte('{')
		for i, k := range n.keys {
			if i > 0 {
				b.WriteByte(',')
			}
			kb, _ := json.Marshal(k)
			b.Write(kb)
			b.WriteByte(':')
			n.kids[i].render(b)
		}
		b.WriteByte('}')
	case "array":
		b.WriteByte('[')
		for i, k := range n.kids {
			if i > 0 {
				b.WriteByte(',')
			}
			k.render(b)
		}
		b.WriteByte(']')
	default:
		b.WriteString(n.raw)
	}
}

// paths lists every value position: "/key/3/key" (array elements by index).
func (n *jnode) paths(prefix string, out *[]string) {
	for i, k := range n.kids {
		p := prefix + "/"
		if n.kind == "object" {
			p += strings.ReplaceAll(n.keys[i], "/", "~1")
		} else {
			p += strconv.Itoa(i)
		}
		*out = append(*out, p)
		k.paths(p, out)
	}
}

// locate returns the parent of the value at path and the child's index.
func (n *jnode) locate(path string) (*jnode, int) {
	parts := strings.Split(strings.TrimPrefix(path, "/"), "/")
	cur := n
	for d, part := range parts {
		idx := -1
		if cur.kind == "object" {
			want := strings.ReplaceAll(part, "~1", "/")
			for i, k := range cur.keys {
				if k == want {
					idx = i
					break
				}
			}
		} else if cur.kind == "array" {
			if i, err := strconv.Atoi(part); err == nil && i < len(cur.kids) {
				idx = i
			}
		}
		if idx < 0 {
			return nil, -1
		}
		if d == len(parts)-1 {
			return cur, idx
		}
		cur = cur.kids[idx]
	}
	return nil, -1
}

func scalarNode(kind string) *jnode {
	switch kind {
	case "string":
		return &jnode{kind: "string", raw: `"fault"`}
	case "number":
		return &jnode{kind: "number", raw: "42"}
	case "bool":
		return &jnode{kind: "bool", raw: "true"}
	case "array":
		return &jnode{kind: "array", kids: []*jnode{{kind: "string", raw: `"x"`}}}
	case "object":
		return &jnode{kind: "object", keys: []string{"x"}, kids: []*jnode{{kind: "number", raw: "1"}}}
	}
	return &jnode{kind: "null", raw: "null"}
}

// applyFault mutates the tree; reports whether the fault applied (a same-type replacement does not).
func applyFault(root *jnode, path, fault string) bool {
	parent, i := root.locate(path)
	if parent == nil {
		return false
	}
	cur := parent.kids[i]
	switch fault {
	case "null", "string", "number", "bool", "array", "object":
		if cur.kind == fault {
			return false
		}
		parent.kids[i] = scalarNode(fault)
	case "empty":
		switch cur.kind {
		case "object":
			parent.kids[i] = &jnode{kind: "object"}
		case "array":
			parent.kids[i] = &jnode{kind: "array"}
		case "string":
			parent.kids[i] = &jnode{kind: "string", raw: `""`}
		default:
			return false
		}
	case "cut-after-colon":
		// "Organization: ACME" -> "Organization: ": the structured prefix with an empty payload
		if cur.kind != "string" {
			return false
		}
		var v string
		json.Unmarshal([]byte(cur.raw), &v)
		k := strings.Index(v, ": ")
		if k < 0 || k+2 == len(v) {
			return false
		}
		b, _ := json.Marshal(v[:k+2])
		parent.kids[i] = &jnode{kind: "string", raw: string(b)}
	case "whitespace":
		if cur.kind != "string" {
			return false
		}
		parent.kids[i] = &jnode{kind: "string", raw: `" "`}
	case "esc-cut-1", "esc-cut-2", "esc-cut-3", "esc-cut-4", "esc-cut-5", "esc-cut-6":
		// a ':'-delimited string (CPE, purl, "Type: name", SPDX ids) cut in front of its k-th delimiter with a dangling
		// escape character at the end: "cpe:2.3:a:acme:widget:1.0:..." -> "cpe:2.3:a:acme:widget\\" for k = 5
		if cur.kind != "string" {
			return false
		}
		var v string
		json.Unmarshal([]byte(cur.raw), &v)
		k := int(fault[len(fault)-1] - '0')
		pos := -1
		for j := 0; j < len(v); j++ {
			if v[j] == ':' {
				k--
				if k == 0 {
					pos = j
					break
				}
			}
		}
		if pos < 0 {
			return false
		}
		b, _ := json.Marshal(v[:pos] + "\\")
		parent.kids[i] = &jnode{kind: "string", raw: string(b)}
	case "paren-only", "paren-unclosed":
		// "Person: Jane (jane@acme.example)" -> "Person: (jane@acme.example)" / "Person: Jane (": the optional trailing
		// group of a structured string with nothing in front of it, and a group that is opened and never closed
		if cur.kind != "string" {
			return false
		}
		var v string
		json.Unmarshal([]byte(cur.raw), &v)
		prefix := ""
		if k := strings.Index(v, ": "); k >= 0 {
			prefix = v[:k+2]
		}
		payload := "(jane@acme.example)"
		if fault == "paren-unclosed" {
			payload = "Jane ("
		}
		b, _ := json.Marshal(prefix + payload)
		if string(b) == cur.raw {
			return false
		}
		parent.kids[i] = &jnode{kind: "string", raw: string(b)}
	case "noassertion":
		if cur.kind != "string" {
			return false
		}
		parent.kids[i] = &jnode{kind: "string", raw: `"NOASSERTION"`}
	case "absent":
		parent.kids = append(parent.kids[:i:i], parent.kids[i+1:]...)
		if parent.kind == "object" {
			parent.keys = append(parent.keys[:i:i], parent.keys[i+1:]...)
		}
	case "duplicated":
		parent.kids = append(parent.kids, cur.clone())
		if parent.kind == "object" {
			parent.keys = append(parent.keys, parent.keys[i])
		}
	case "oversized":
		switch cur.kind {
		case "string":
			parent.kids[i] = &jnode{kind: "string", raw: `"` + strings.Repeat("A", 200000) + `"`}
		case "number":
			parent.kids[i] = &jnode{kind: "number", raw: "1e308"}
		case "array":
			if len(cur.kids) == 0 {
				return false
			}
			big := &jnode{kind: "array"}
			for j := 0; j < 2000; j++ {
				big.kids = append(big.kids, cur.kids[0])
			}
			parent.kids[i] = big
		default:
			return false
		}
	default:
		return false
	}
	return true
}

// ---------------------------------------------------------------------------
// representative documents

func richDoc() *sbom.Document {
	r := rand.New(rand.NewSource(7))
	d := newDoc(r)
	d.Metadata.Name = "representative"
	d.Metadata.Tools = []*sbom.Tool{{Name: "tool", Version: "1"}}
	d.Metadata.Authors = []*sbom.Person{{Name: "author", Email: "a@example.com"}}
	d.Metadata.DocumentTypes = []*sbom.DocumentType{{Type: sbom.DocumentType_BUILD.Enum()}}
	root := spdxNode(r, "root", 1.0, 0)
	root.Type = sbom.Node_PACKAGE
	root.Licenses = []string{"MIT", "Apache-2.0"}
	root.Description = "d"
	root.ExternalReferences = append(root.ExternalReferences, &sbom.ExternalReference{Type: sbom.ExternalReference_VCS, Url: "https://example.com/vcs", Hashes: map[int32]string{3: "abcd"}})
	root.Suppliers = []*sbom.Person{{Name: "ACME Inc", IsOrg: true}}
	root.Originators = []*sbom.Person{{Name: "Jane Doe"}}
	lib := spdxNode(r, "lib", 1.0, 1)
	lib.Type = sbom.Node_PACKAGE
	lib.Suppliers = []*sbom.Person{{Name: "John Roe"}}
	lib.Originators = []*sbom.Person{{Name: "Upstream Org", IsOrg: true}}
	lib.Licenses = []string{"MIT"}
	file := &sbom.Node{Id: "file", Type: sbom.Node_FILE, Name: "f.txt", Hashes: map[int32]string{2: "ee"}, Copyright: "c", LicenseConcluded: "MIT",
		// a component without version that has a CPE and a purl
		Identifiers: map[int32]string{int32(sbom.SoftwareIdentifierType_CPE23): "cpe:2.3:a:acme:f:1.0:*:*:*:*:*:*:*", int32(sbom.SoftwareIdentifierType_PURL): "pkg:generic/acme/f@1.0"}}
	d.NodeList.Nodes = []*sbom.Node{root, lib, file}
	d.NodeList.RootElements = []string{"root"}
	d.NodeList.Edges = []*sbom.Edge{{Type: sbom.Edge_contains, From: "root", To: []string{"lib"}}, {Type: sbom.Edge_contains, From: "lib", To: []string{"file"}},
		{Type: sbom.Edge_dependsOn, From: "root", To: []string{"lib"}}}
	return d
}

func representatives() map[string][]byte {
	out := map[string][]byte{}
	for name, f := range map[string]formats.Format{"rep-spdx23": formats.SPDX23JSON, "rep-cdx15": formats.CDX15JSON, "rep-cdx14": formats.CDX14JSON} {
		data, kind, text := writeDoc(richDoc(), f, 2)
		if kind != "ok" {
			panic("cannot write the representative document: " + text)
		}
		out[name] = data
	}
	for _, p := range fixturePaths()[:3] {
		if data, err := os.ReadFile(p); err == nil {
			parts := strings.Split(p, "/")
			out["fixture-"+parts[len(parts)-1]] = data
		}
	}
	return out
}

// faultPaths writes the JSON paths of the representative documents ("doc#/path"), the constant TLC enumerates over.
func faultPaths(args []string) error {
	fs := flag.NewFlagSet("fault-paths", flag.ExitOnError)
	out := fs.String("out", "", "output (JSON array of strings)")
	fs.Parse(args)
	all := []string{}
	reps := representatives()
	names := []string{}
	for n := range reps {
		names = append(names, n)
	}
	sort.Strings(names)
	for _, n := range names {
		root, err := parseJSON(reps[n])
		if err != nil {
			return err
		}
		var ps []string
		root.paths("", &ps)
		for _, p := range ps {
			all = append(all, n+"#"+p)
		}
	}
	b, _ := json.Marshal(all)
	return os.WriteFile(*out, b, 0o644)
}

// ---------------------------------------------------------------------------

type parseResult struct {
	mode    string
	kind    string
	text    string
	hasMeta bool
	hasNL   bool
}

// parseAll runs format detection and every applicable registered parser on the bytes.
func parseAll(data []byte) []any {
	res := []any{}
	add := func(mode, kind, text string, doc *sbom.Document) {
		r := map[string]any{"mode": mode, "o": outcome(kind, text), "meta": doc != nil && doc.Metadata != nil, "nl": doc != nil && doc.NodeList != nil}
		res = append(res, r)
	}
	var sf formats.Format
	var serr error
	k, t := guarded(20*time.Second, func() {
		s := formats.Sniffer{}
		sf, serr = s.SniffReader(bytes.NewReader(data))
	})
	switch {
	case k != "ok":
		add("sniff", k, t, nil)
	case serr != nil && sf != "":
		add("sniff", "both", "", nil)
	case serr == nil && sf == "":
		add("sniff", "neither", "", nil)
	}
	doc, k, t := readDoc(data, "")
	add("auto", k, t, doc)
	for _, f := range []string{"spdx23", "cdx13", "cdx15"} {
		if leaked {
			break // a call outlived its deadline and is still running: no further calls in this process
		}
		doc, k, t := readDoc(data, trFormats[f])
		add(f, k, t, doc)
	}
	return res
}

func faultRun(args []string) error {
	fs := flag.NewFlagSet("fault-run", flag.ExitOnError)
	out := fs.String("out", "", "trace file")
	schedule := fs.String("schedule", "", "singles exported by TLC ({\"all\":[[path,fault],...]})")
	seed := fs.Int64("seed", 1, "seed")
	pairs := fs.Int("pairs", 1000, "number of seeded fault pairs")
	extra := fs.Int("extra", 200, "number of cases outside the model (random bytes, truncations, nesting)")
	shard := fs.Int("shard", 0, "")
	nshards := fs.Int("shards", 1, "")
	replay := fs.String("replay", "", "")
	child := fs.Bool("child", false, "internal")
	fs.IntVar(&skipCases, "skip", 0, "internal")
	fs.Parse(args)
	if !*child {
		var pass []string
		for i := 0; i < len(args); i++ {
			if args[i] == "--out" {
				i++
				continue
			}
			pass = append(pass, args[i])
		}
		return isolate("fault-run", pass, *out)
	}
	capChildMemory()
	w, err := newNDWriter(*out)
	if err != nil {
		return err
	}
	defer w.close()
	reps := representatives()
	trees := map[string]*jnode{}
	for n, data := range reps {
		trees[n], _ = parseJSON(data)
	}
	sid := 0
	runCase := func(label string, faults [][2]string, data []byte) {
		sid++
		if sid%*nshards != *shard && *replay == "" {
			return
		}
		fl := []any{}
		for _, f := range faults {
			fl = append(fl, []any{f[0], f[1]})
		}
		ev := map[string]any{"op": "PF", "sid": sid, "label": label, "faults": fl, "size": len(data), "results": []any{},
			"biglicenses": bigLicenses(data)}
		if len(data) <= 4096 && len(faults) == 0 {
			ev["bytes"] = fmt.Sprintf("%x", data)
		}
		if sid <= skipCases {
			return
		}
		ev["op"] = "PF-begin"
		w.write(ev)
		w.flush()
		ev["op"] = "PF"
		ev["results"] = parseAll(data)
		w.write(ev)
		w.flush()
		exitIfLeaked(w)
	}
	faulted := func(faults [][2]string) ([]byte, bool) {
		if len(faults) == 0 {
			return nil, false
		}
		docName := strings.SplitN(faults[0][0], "#", 2)[0]
		tree, ok := trees[docName]
		if !ok {
			return nil, false
		}
		t := tree.clone()
		for _, f := range faults {
			parts := strings.SplitN(f[0], "#", 2)
			if parts[0] != docName || !applyFault(t, parts[1], f[1]) {
				return nil, false
			}
		}
		var b bytes.Buffer
		t.render(&b)
		return b.Bytes(), true
	}
	if *replay != "" {
		return readND(*replay, func(ev map[string]any) error {
			var faults [][2]string
			arr, _ := ev["faults"].([]any)
			for _, f := range arr {
				p, _ := f.([]any)
				if len(p) == 2 {
					faults = append(faults, [2]string{p[0].(string), p[1].(string)})
				}
			}
			if data, ok := faulted(faults); ok {
				runCase(str(ev, "label"), faults, data)
			} else if hx := str(ev, "bytes"); hx != "" {
				var data []byte
				fmt.Sscanf(hx, "%x", &data)
				runCase(str(ev, "label"), nil, data)
			}
			return nil
		})
	}
	raw, err := os.ReadFile(*schedule)
	if err != nil {
		return err
	}
	var file struct {
		All [][2]string `json:"all"`
	}
	if err := json.Unmarshal(raw, &file); err != nil {
		return err
	}
	singles := file.All
	sort.Slice(singles, func(i, j int) bool { return singles[i][0]+singles[i][1] < singles[j][0]+singles[j][1] })
	// the unfaulted representatives first
	for n, data := range reps {
		runCase("intact:"+n, nil, data)
	}
	for _, s := range singles {
		if data, ok := faulted([][2]string{s}); ok {
			runCase("single", [][2]string{s}, data)
		}
	}
	r := rand.New(rand.NewSource(*seed))
	for i := 0; i < *pairs; i++ {
		a, b := singles[r.Intn(len(singles))], singles[r.Intn(len(singles))]
		if a[0] == b[0] || strings.HasPrefix(a[0], b[0]+"/") || strings.HasPrefix(b[0], a[0]+"/") {
			continue
		}
		// apply the deeper / later path first so that indices of the other stay valid
		fs2 := [][2]string{a, b}
		if a[0] < b[0] {
			fs2 = [][2]string{b, a}
		}
		if data, ok := faulted(fs2); ok {
			runCase("pair", fs2, data)
		}
	}
	// outside the model: the contract only
	names := []string{}
	for n := range reps {
		names = append(names, n)
	}
	sort.Strings(names)
	for i := 0; i < *extra; i++ {
		base := reps[names[i%len(names)]]
		switch i % 8 {
		case 5:
			// tag-value text around the version tag: bytes before it, values after it
			pre := pick(r, []string{"", "\xff", "\xff\xfe\xfd", "\u023a\u023e", "  ", "# ", "\xc3"})
			val := pick(r, []string{"", " ", " SPDX-2.3", "SPDX-2.3", " 2.3", " SPDX-2.3 SPDX-9.9", " SPDX-2.2\r", "\t"})
			tail := pick(r, []string{"", "\n", "\nDataLicense: CC0-1.0\n", "\r\n",
				"\nPackageLicenseComments: <text>never closed\nmore text\n", "\nLicenseComments: <text>a</text>\nPackageComment: <text>open\n"})
			if r.Intn(4) == 0 {
				// a multi-line text value that is never closed, BEFORE any version line
				pre = "PackageName: x\nPackageComment: <text>unterminated comment\nstill inside\n" + pre
			}
			runCase("tag-value", nil, []byte(pre+"SPDXVersion:"+val+tail))
		case 6:
			// lines that start with something a line-based detector looks for
			runCase("schema-lines", nil, []byte(pick(r, []string{"http://cyclonedx.org/schema/bom/1.4\n", "http://cyclonedx.org/schema/bom/\nxmlns\n",
				"<bom xmlns=\"\nhttp://cyclonedx.org/schema/bom/1.5\">", "\"http://cyclonedx.org/schema/bom/1.4", "SPDXVersion", "bomFormat\nCycloneDX"})))
		case 7:
			// dates that are text in another script (multi-byte, under 64 characters, over 64 bytes)
			d := strings.Repeat("二〇二四年", 5+r.Intn(6))
			doc := `{"spdxVersion":"SPDX-2.3","dataLicense":"CC0-1.0","SPDXID":"SPDXRef-DOCUMENT","name":"n","documentNamespace":"https://e.org/ns","creationInfo":{"created":"` + d +
				`","creators":["Tool: t"]},"packages":[{"SPDXID":"SPDXRef-a","name":"a","downloadLocation":"NOASSERTION","releaseDate":"` + d + `","builtDate":"` + d + `","validUntilDate":"` + d + `"}]}`
			runCase("multibyte-dates", nil, []byte(doc))
		case 0:
			b := make([]byte, r.Intn(200))
			r.Read(b)
			runCase("random-bytes", nil, b)
		case 1:
			runCase("truncated", nil, base[:r.Intn(len(base))])
		case 2:
			depth := []int{100, 1000, 10000, 100000}[r.Intn(4)]
			runCase("nesting", nil, []byte(strings.Repeat(`{"components":[`, depth)+strings.Repeat(`]}`, depth)))
		case 3:
			b := append([]byte{}, base...)
			for j, m := 0, 1+r.Intn(5); j < m; j++ {
				b[r.Intn(len(b))] = byte(r.Intn(256))
			}
			runCase("bit-flips", nil, b)
		case 4:
			depth := []int{100, 1000, 10000}[r.Intn(3)]
			runCase("nested-components", nil, []byte(`{"bomFormat":"CycloneDX","specVersion":"1.5","components":[`+
				strings.Repeat(`{"type":"library","name":"n","components":[`, depth)+strings.Repeat(`]}`, depth)+`]}`))
		}
	}
	return nil
}

// bigLicenses is a derived fact about the input (decoded with encoding/json only): some "licenses" array has
// more than 16 entries.  Only such inputs can trigger the known exponential licence-expression finding.
func bigLicenses(data []byte) bool {
	var v any
	if json.Unmarshal(data, &v) != nil {
		return false
	}
	var walk func(v any) bool
	walk = func(v any) bool {
		switch x := v.(type) {
		case map[string]any:
			for k, e := range x {
				if arr, ok := e.([]any); ok && k == "licenses" && len(arr) > 16 {
					return true
				}
				if walk(e) {
					return true
				}
			}
		case []any:
			for _, e := range x {
				if walk(e) {
					return true
				}
			}
		}
		return false
	}
	return walk(v)
}
