package main

import (
	"fmt"
	"math/rand"

	"github.com/protobom/protobom/pkg/sbom"
	"google.golang.org/protobuf/reflect/protoreflect"
	"google.golang.org/protobuf/types/known/timestamppb"
)

// Random value generation shared by the script generators.  Everything is
// driven by a seeded *rand.Rand; message contents are produced by reflection
// over the live descriptors so that every schema field (also ones added later)
// takes part.

var strPool = []string{"100%+free", "a%2Fb", "a%3Fb", "syft-0.98.0", "x", "y", "zeta", "Ünï cödé", "a:b", "n(1)", "q+r", "[0]", "MIT", "https://example.com/p"}
var purlPool = []string{"pkg:npm/left-pad@1.0.0", "pkg:npm/right-pad@2.0.0", "pkg:golang/github.com/x/y@v1", "pkg:/deb/debian/curl@7", "pkg:generic/z"}
var hashVals = []string{"aa11", "bb22", "cc33"}
var timePool = []int64{1577934245, 1577934246, 946684800, 0, 0, -62135596800, 253402300799} // incl. the epoch and the ends of the valid range

func pick[T any](r *rand.Rand, xs []T) T { return xs[r.Intn(len(xs))] }

func randScalar(r *rand.Rand, fd protoreflect.FieldDescriptor) protoreflect.Value {
	switch fd.Kind() {
	case protoreflect.StringKind:
		return protoreflect.ValueOfString(pick(r, strPool))
	case protoreflect.BoolKind:
		return protoreflect.ValueOfBool(true)
	case protoreflect.EnumKind:
		n := fd.Enum().Values().Len()
		if n > 6 {
			n = 6
		}
		return protoreflect.ValueOfEnum(fd.Enum().Values().Get(1 + r.Intn(n-1)).Number())
	case protoreflect.Int32Kind:
		return protoreflect.ValueOfInt32(int32(1 + r.Intn(4)))
	case protoreflect.Int64Kind:
		return protoreflect.ValueOfInt64(int64(1 + r.Intn(4)))
	}
	return fd.Default()
}

// fillMsg populates each field of m with probability p (message depth limited).
func fillMsg(r *rand.Rand, m protoreflect.Message, p float64, depth int, skip map[string]bool) {
	fds := m.Descriptor().Fields()
	for i := 0; i < fds.Len(); i++ {
		fd := fds.Get(i)
		if skip[string(fd.Name())] || r.Float64() >= p {
			continue
		}
		switch {
		case fd.IsMap():
			mp := m.Mutable(fd).Map()
			for j, n := 0, 1+r.Intn(2); j < n; j++ {
				k := protoreflect.ValueOfInt32(int32(1 + r.Intn(3))).MapKey()
				v := pick(r, hashVals)
				if fd.Name() == "identifiers" {
					v = pick(r, purlPool)
				}
				if r.Intn(10) == 0 {
					v = "" // an entry with an empty value is still an entry
				}
				mp.Set(k, protoreflect.ValueOfString(v))
			}
		case fd.IsList():
			l := m.Mutable(fd).List()
			for j, n := 0, 1+r.Intn(2); j < n; j++ {
				if fd.Kind() == protoreflect.MessageKind {
					if depth <= 0 {
						continue
					}
					e := l.NewElement()
					fillMsg(r, e.Message(), p, depth-1, nil)
					l.Append(e)
				} else {
					l.Append(randScalar(r, fd))
				}
			}
		case fd.Kind() == protoreflect.MessageKind:
			if fd.Message().FullName() == "google.protobuf.Timestamp" {
				ts := &timestamppb.Timestamp{Seconds: pick(r, timePool)}
				switch r.Intn(8) {
				case 0, 1:
					ts.Nanos = int32(1 + r.Intn(999))
				case 2:
					ts.Nanos = 750000000
				case 3: // outside the range protobuf calls valid (year 10000): still a value that must be copied, compared, kept
					ts.Seconds = 253402300800
				case 4:
					ts.Seconds, ts.Nanos = -86400*365*5, 0 // before 1970
				}
				m.Set(fd, protoreflect.ValueOfMessage(ts.ProtoReflect()))
			} else if depth > 0 {
				fillMsg(r, m.Mutable(fd).Message(), p, depth-1, nil)
			}
		default:
			m.Set(fd, randScalar(r, fd))
		}
	}
}

func randNode(r *rand.Rand, id string, rich float64) *sbom.Node {
	n := &sbom.Node{Id: id}
	if r.Intn(4) == 0 {
		n.Type = sbom.Node_FILE
	}
	fillMsg(r, n.ProtoReflect(), rich, 2, map[string]bool{"id": true, "type": true})
	return n
}

type listOpts struct {
	ids      []string // identifier pool
	rich     float64  // probability of each attribute
	ill      bool     // allow dangling references, several edges per key, repeated targets
	parallel bool     // well-formed but not normalised: several edges per (source, type), repeated targets
	types    []sbom.Edge_Type
	maxNodes int
}

func randList(r *rand.Rand, o listOpts) *sbom.NodeList {
	nl := &sbom.NodeList{}
	perm := r.Perm(len(o.ids))
	k := r.Intn(min(len(o.ids), o.maxNodes) + 1)
	present := []string{}
	for _, i := range perm[:k] {
		present = append(present, o.ids[i])
		nl.Nodes = append(nl.Nodes, randNode(r, o.ids[i], o.rich))
	}
	targets := present
	if o.ill {
		targets = append(append([]string{}, present...), "dangling-1", o.ids[perm[len(perm)-1]])
	}
	if len(present) > 0 {
		seen := map[string]bool{}
		for j, n := 0, r.Intn(2*len(present)+1); j < n; j++ {
			from := pick(r, present)
			if o.ill && r.Intn(6) == 0 {
				from = pick(r, targets)
			}
			t := pick(r, o.types)
			key := fmt.Sprint(from, "/", t)
			if seen[key] && !o.ill && !o.parallel {
				continue
			}
			seen[key] = true
			e := &sbom.Edge{Type: t, From: from}
			tseen := map[string]bool{}
			for q, m := 0, 1+r.Intn(3); q < m; q++ {
				to := pick(r, targets)
				if tseen[to] && !((o.ill || o.parallel) && r.Intn(2) == 0) {
					continue
				}
				tseen[to] = true
				e.To = append(e.To, to)
			}
			nl.Edges = append(nl.Edges, e)
		}
		for _, id := range targets {
			if r.Intn(3) == 0 {
				nl.RootElements = append(nl.RootElements, id)
				if o.parallel && r.Intn(3) == 0 {
					nl.RootElements = append(nl.RootElements, id) // the same node named twice at the top level
				}
			}
		}
	}
	return nl
}

func idPool(n int) []string {
	names := []string{"a", "b", "c", "d", "e", "f", "g", "h", "pkg-9", "File-10", "k", "m", "n.o", "p", "q", "r", "s", "t", "u", "v"}
	return names[:n]
}
