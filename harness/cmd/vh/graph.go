package main

import (
	"encoding/json"
	"flag"
	"fmt"
	"reflect"
	"sort"
	"strings"
	"time"
	"unsafe"

	"github.com/protobom/protobom/pkg/sbom"
	"google.golang.org/protobuf/reflect/protoreflect"
	"verifharness/proj"
)

func init() { commands["graph-run"] = graphRun }

// graphRun executes graph scripts on the real sbom package.
//
// Script line:  {"op":"Reset","sid":n,"regs":{name: projected node list}}
//
//	{"op":<name>,"sid":n, ...arguments}
//
// Trace line:   the script line plus "res" (outcome), "ch" (projected value of
//
//	every register whose projection changed), and op specific results.
func graphRun(args []string) error {
	fs := flag.NewFlagSet("graph-run", flag.ExitOnError)
	in := fs.String("scripts", "", "script file (ndjson)")
	out := fs.String("out", "", "trace file (ndjson)")
	heap := fs.Bool("heap", false, "log heap identity of registers for value-returning operations")
	deadline := fs.Duration("deadline", 20*time.Second, "per call deadline")
	fs.Parse(args)
	w, err := newNDWriter(*out)
	if err != nil {
		return err
	}
	defer w.close()
	m := &gmachine{regs: map[string]*sbom.NodeList{}, heap: *heap, addr: map[uintptr]int{}}
	return readND(*in, func(ev map[string]any) error {
		if str(ev, "op") == "Reset" {
			m.regs = map[string]*sbom.NodeList{}
			for k, v := range obj(ev, "regs") {
				vm, _ := v.(map[string]any)
				m.regs[k] = proj.ToNodeList(vm)
			}
			// log the registers as the code sees them (projection of the rebuilt values)
			ev["regs"] = m.snapshotAll()
			w.write(ev)
			return nil
		}
		if strings.HasPrefix(str(ev, "op"), "Law") { // judged by the specification on the registers; no call
			w.write(ev)
			return nil
		}
		if a, ok := ev["a"].(string); ok && m.regs[a] == nil {
			ev["op"] = "Skip" // a register holding nil cannot be a receiver
		}
		if b, ok := ev["b"].(string); ok && m.regs[b] == nil && str(ev, "op") != "Equal" {
			ev["op"] = "Skip"
		}
		if str(ev, "op") == "Skip" {
			w.write(ev)
			return nil
		}
		before := m.snapshotStrings()
		done := make(chan map[string]any, 1)
		go func() {
			res := map[string]any{"kind": "ok"}
			defer func() {
				if r := recover(); r != nil {
					res["kind"] = "panic"
					res["text"] = fmt.Sprint(r)
				}
				done <- res
			}()
			m.exec(ev)
		}()
		select {
		case res := <-done:
			ev["res"] = res
		case <-time.After(*deadline):
			ev["res"] = map[string]any{"kind": "timeout"}
			ev["ch"] = map[string]any{}
			w.write(ev)
			w.flush()
			return fmt.Errorf("call exceeded deadline: %v", ev["op"])
		}
		ch := map[string]any{}
		for k, v := range m.snapshotAll() {
			if canon(v) != before[k] {
				ch[k] = v
			}
		}
		ev["ch"] = ch
		w.write(ev)
		return nil
	})
}

type gmachine struct {
	regs map[string]*sbom.NodeList
	heap bool
	addr map[uintptr]int
}

func (m *gmachine) snapshotAll() map[string]any {
	out := map[string]any{}
	for k, v := range m.regs {
		out[k] = proj.NodeList(v)
	}
	return out
}

func (m *gmachine) snapshotStrings() map[string]string {
	out := map[string]string{}
	for k, v := range m.regs {
		out[k] = canon(proj.NodeList(v))
	}
	return out
}

func (m *gmachine) exec(ev map[string]any) {
	a := m.regs[str(ev, "a")]
	b := m.regs[str(ev, "b")]
	outName := str(ev, "out")
	switch str(ev, "op") {
	case "Union":
		m.regs[outName] = a.Union(b)
		m.logHeap(ev, outName, str(ev, "a"), str(ev, "b"))
	case "Intersect":
		m.regs[outName] = a.Intersect(b)
		m.logHeap(ev, outName, str(ev, "a"), str(ev, "b"))
	case "Add":
		a.Add(b)
	case "Remove":
		a.RemoveNodes(strs(ev, "ids"))
	case "RelateNode":
		n := proj.ToNode(obj(ev, "n"))
		err := a.RelateNodeAtID(n, str(ev, "at"), sbom.Edge_Type(integer(ev, "t")))
		ev["err"] = errText(err)
	case "RelateList":
		err := a.RelateNodeListAtID(b, str(ev, "at"), sbom.Edge_Type(integer(ev, "t")))
		ev["err"] = errText(err)
	case "AddNode":
		a.AddNode(proj.ToNode(obj(ev, "n")))
	case "AddRootNode":
		a.AddRootNode(proj.ToNode(obj(ev, "n")))
	case "AddEdge":
		a.AddEdge(proj.ToEdge(obj(ev, "e")))
	case "Graph":
		m.regs[outName] = a.NodeGraph(str(ev, "id"))
	case "Siblings":
		m.regs[outName] = a.NodeSiblings(str(ev, "id"))
	case "Descendants":
		m.regs[outName] = a.NodeDescendants(str(ev, "id"), integer(ev, "depth"))
	case "ByPurlType":
		pt := str(ev, "ptype")
		sel := []any{}
		for _, n := range a.Nodes {
			if n.Type == sbom.Node_FILE {
				continue
			}
			p := n.Identifiers[int32(sbom.SoftwareIdentifierType_PURL)]
			if strings.HasPrefix(p, "pkg:"+pt+"/") || strings.HasPrefix(p, "pkg:/"+pt+"/") {
				sel = append(sel, n.Id)
			}
		}
		ev["sel"] = sel
		m.regs[outName] = a.GetNodesByPurlType(pt)
	case "Copy":
		c := a.Copy()
		m.regs[outName] = c
		ev["equal"] = c.Equal(a) && a.Equal(c)
		m.logHeap(ev, outName, str(ev, "a"))
	case "Pair":
		// one ordered pair of the exported universe through the three merging operations, operands compared afterwards
		x, y := proj.ToNodeList(obj(ev, "x")), proj.ToNodeList(obj(ev, "y"))
		bx, _ := json.Marshal(proj.NodeList(x))
		by, _ := json.Marshal(proj.NodeList(y))
		ev["u"] = proj.NodeList(x.Union(y))
		ev["ix"] = proj.NodeList(x.Intersect(y))
		ax, _ := json.Marshal(proj.NodeList(x))
		ay, _ := json.Marshal(proj.NodeList(y))
		ev["same"] = string(ax) == string(bx) && string(ay) == string(by)
		// relating the second list at every position of the first (and at one that is not there), on fresh copies
		rl := []any{}
		argsame := true
		for _, at := range []string{"a", "b", "g"} {
			xc := proj.ToNodeList(obj(ev, "x"))
			err := xc.RelateNodeListAtID(y, at, sbom.Edge_Type(5))
			rl = append(rl, map[string]any{"at": at, "err": errText(err), "r": proj.NodeList(xc)})
			ay3, _ := json.Marshal(proj.NodeList(y))
			argsame = argsame && string(ay3) == string(by)
		}
		ev["rl"] = rl
		x.Add(y)
		ev["ad"] = proj.NodeList(x)
		ay2, _ := json.Marshal(proj.NodeList(y))
		ev["argsame"] = argsame && string(ay2) == string(by)
		return
	case "EditAll":
		// one list of the exported universe through every removal (all subsets of a, b, g) and every relating of a node
		rm := []any{}
		for mask := 0; mask < 8; mask++ {
			ids := []string{}
			for k, id := range []string{"a", "b", "g"} {
				if mask&(1<<k) != 0 {
					ids = append(ids, id)
				}
			}
			xc := proj.ToNodeList(obj(ev, "x"))
			xc.RemoveNodes(ids)
			rm = append(rm, map[string]any{"ids": ids, "r": proj.NodeList(xc)})
		}
		ev["rm"] = rm
		rn := []any{}
		for _, at := range []string{"a", "b", "g"} {
			for _, n := range []*sbom.Node{{Id: "a", Name: "fresh"}, {Id: "c", Name: "new"}} {
				xc := proj.ToNodeList(obj(ev, "x"))
				err := xc.RelateNodeAtID(n, at, sbom.Edge_Type(5))
				rn = append(rn, map[string]any{"at": at, "n": proj.Node(n), "err": errText(err), "r": proj.NodeList(xc)})
			}
		}
		ev["rn"] = rn
		return
	case "ExtractAll":
		// one (graph, start) of the exported universe through every extraction; the source compared afterwards
		g := proj.ToNodeList(obj(ev, "g"))
		before, _ := json.Marshal(proj.NodeList(g))
		id := str(ev, "id")
		ev["graph"] = proj.NodeList(g.NodeGraph(id))
		ev["sib"] = proj.NodeList(g.NodeSiblings(id))
		ds := []any{}
		for k := 1; k <= 3; k++ {
			ds = append(ds, proj.NodeList(g.NodeDescendants(id, k)))
		}
		ev["desc"] = ds
		after, _ := json.Marshal(proj.NodeList(g))
		ev["same"] = string(before) == string(after)
		return
	case "CopyElem":
		// the element-level copies (node, edge, person, external reference): same content, equal, no shared storage
		k := integer(ev, "k")
		shared := func(x, y any) bool {
			sx, sy := map[uintptr]bool{}, map[uintptr]bool{}
			walkHeap(reflect.ValueOf(x), sx)
			walkHeap(reflect.ValueOf(y), sy)
			for p := range sx {
				if sy[p] {
					return true
				}
			}
			return false
		}
		same := func(x, y protoreflect.Message) bool {
			bx, _ := json.Marshal(proj.Msg(x))
			by, _ := json.Marshal(proj.Msg(y))
			return string(bx) == string(by)
		}
		res := []any{}
		if len(a.Nodes) > 0 {
			n := a.Nodes[k%len(a.Nodes)]
			c := n.Copy()
			res = append(res, map[string]any{"kind": "node", "content": same(n.ProtoReflect(), c.ProtoReflect()), "equal": n.Equal(c) && c.Equal(n), "shared": shared(n, c)})
			for _, p := range append(append([]*sbom.Person{}, n.Suppliers...), n.Originators...) {
				if p != nil {
					pc := p.Copy()
					res = append(res, map[string]any{"kind": "person", "content": same(p.ProtoReflect(), pc.ProtoReflect()), "equal": true, "shared": shared(p, pc)})
				}
			}
			for _, x := range n.ExternalReferences {
				if x != nil {
					xc := x.Copy()
					res = append(res, map[string]any{"kind": "extref", "content": same(x.ProtoReflect(), xc.ProtoReflect()), "equal": true, "shared": shared(x, xc)})
				}
			}
		}
		{
			// a node whose contact tree reaches one person object twice: the copy has the same content
			helpdesk := &sbom.Person{Name: "helpdesk"}
			team := &sbom.Person{Name: "team", Contacts: []*sbom.Person{helpdesk}}
			n := &sbom.Node{Id: "shared", Suppliers: []*sbom.Person{{Name: "org", Contacts: []*sbom.Person{helpdesk, team}}}}
			c := n.Copy()
			res = append(res, map[string]any{"kind": "node-shared-contact", "content": same(n.ProtoReflect(), c.ProtoReflect()), "equal": n.Equal(c) && c.Equal(n), "shared": shared(n, c)})
			lc := (&sbom.NodeList{Nodes: []*sbom.Node{n}}).Copy()
			res = append(res, map[string]any{"kind": "list-shared-contact", "content": len(lc.Nodes) == 1 && same(n.ProtoReflect(), lc.Nodes[0].ProtoReflect()), "equal": true, "shared": false})
		}
		{
			// a contact chain five persons deep (and an external reference next to it): a copy is independent at every level
			deep := &sbom.Person{Name: "level5", Email: "l5@example.org"}
			for _, name := range []string{"level4", "level3", "level2", "level1"} {
				deep = &sbom.Person{Name: name, Contacts: []*sbom.Person{deep, {Name: name + "-peer"}}}
			}
			n := &sbom.Node{Id: "deep", Suppliers: []*sbom.Person{deep}, Originators: []*sbom.Person{{Name: "o", Contacts: []*sbom.Person{{Name: "o1", Contacts: []*sbom.Person{{Name: "o2", Contacts: []*sbom.Person{{Name: "o3"}}}}}}}}}
			c := n.Copy()
			res = append(res, map[string]any{"kind": "node-deep-contacts", "content": same(n.ProtoReflect(), c.ProtoReflect()), "equal": n.Equal(c) && c.Equal(n), "shared": shared(n, c)})
			pc := deep.Copy()
			res = append(res, map[string]any{"kind": "person-deep-contacts", "content": same(deep.ProtoReflect(), pc.ProtoReflect()), "equal": true, "shared": shared(deep, pc)})
			lc := (&sbom.NodeList{Nodes: []*sbom.Node{n}}).Copy()
			res = append(res, map[string]any{"kind": "list-deep-contacts", "content": len(lc.Nodes) == 1 && same(n.ProtoReflect(), lc.Nodes[0].ProtoReflect()), "equal": true, "shared": len(lc.Nodes) == 1 && shared(n, lc.Nodes[0])})
		}
		if len(a.Edges) > 0 {
			e := a.Edges[k%len(a.Edges)]
			c := e.Copy()
			res = append(res, map[string]any{"kind": "edge", "content": same(e.ProtoReflect(), c.ProtoReflect()), "equal": e.Equal(c) && c.Equal(e), "shared": shared(e, c)})
		}
		ev["copies"] = res
	case "Mutate":
		ev["path"] = mutate(a.ProtoReflect(), integer(ev, "k"))
	case "GetNodeByID":
		ev["val"] = proj.Node(a.GetNodeByID(str(ev, "id")))
	case "GetNodesByName":
		ev["val"] = proj.Nodes(a.GetNodesByName(str(ev, "name")))
	case "GetNodesByIdentifier":
		ev["val"] = proj.Nodes(a.GetNodesByIdentifier(str(ev, "t"), str(ev, "v")))
	case "GetRootNodes":
		// alternately through the list and through a document holding it (the same answer is required)
		if integer(ev, "sid")%2 == 0 {
			ev["val"] = proj.Nodes(a.GetRootNodes())
		} else {
			ev["val"] = proj.Nodes((&sbom.Document{NodeList: a}).GetRootNodes())
			ev["via"] = "document"
		}
	case "Match":
		p := proj.ToNode(obj(ev, "p"))
		if k, ok := ev["self"]; ok && len(a.Nodes) > 0 {
			// the probe is an element of the list itself (the same object, not a copy of it)
			p = a.Nodes[int(k.(float64))%len(a.Nodes)]
			ev["p"] = proj.Node(p)
		}
		n, err := a.GetMatchingNode(p)
		switch {
		case err != nil && n != nil:
			ev["kind"] = "both"
		case err == sbom.ErrorMoreThanOneMatch:
			ev["kind"] = "ambiguous"
		case err != nil:
			ev["kind"] = "error"
		case n == nil:
			ev["kind"] = "none"
		default:
			ev["kind"] = "node"
		}
		ev["val"] = proj.Node(n)
	case "Equal":
		ev["val"] = a.Equal(b)
	case "Query":
		ev["note"] = m.query(str(ev, "q"), a, b, ev)
	default:
		panic("vh: unknown op " + str(ev, "op"))
	}
}

func errText(err error) string {
	if err == nil {
		return ""
	}
	return err.Error()
}

// query runs one read-only / value-returning public operation and discards the result.
func (m *gmachine) query(q string, a, b *sbom.NodeList, ev map[string]any) string {
	idx := integer(ev, "i")
	node := func(nl *sbom.NodeList, i int) *sbom.Node {
		if nl == nil || len(nl.Nodes) == 0 {
			return &sbom.Node{}
		}
		return nl.Nodes[i%len(nl.Nodes)]
	}
	edge := func(nl *sbom.NodeList, i int) *sbom.Edge {
		if nl == nil || len(nl.Edges) == 0 {
			return &sbom.Edge{}
		}
		return nl.Edges[i%len(nl.Edges)]
	}
	switch q {
	case "ListEqual":
		return fmt.Sprint(a.Equal(b))
	case "NodeEqual":
		return fmt.Sprint(node(a, idx).Equal(node(b, idx)))
	case "EdgeEqual":
		return fmt.Sprint(edge(a, idx).Equal(edge(b, idx)))
	case "NodeChecksum":
		return node(a, idx).Checksum()
	case "NodeDiff":
		return fmt.Sprint(node(a, idx).Diff(node(b, idx)) != nil)
	case "NodeCopy":
		node(a, idx).Copy()
	case "EdgeCopy":
		edge(a, idx).Copy()
	case "ListCopy":
		a.Copy()
	case "PersonCopy":
		n := node(a, idx)
		for _, p := range n.Suppliers {
			p.Copy()
		}
		for _, p := range n.Originators {
			p.Copy()
		}
	case "ExtRefCopy":
		for _, r := range node(a, idx).ExternalReferences {
			r.Copy()
		}
	case "Union":
		a.Union(b)
	case "Intersect":
		a.Intersect(b)
	case "Graph":
		a.NodeGraph(node(a, idx).Id)
	case "Siblings":
		a.NodeSiblings(node(a, idx).Id)
	case "Descendants":
		a.NodeDescendants(node(a, idx).Id, 3)
	case "ByPurlType":
		a.GetNodesByPurlType([]string{"npm", "deb", "golang", "generic"}[idx%4])
	case "GetNodeByID":
		a.GetNodeByID(node(a, idx).Id)
	case "GetNodesByName":
		a.GetNodesByName(node(a, idx).Name)
	case "GetNodesByIdentifier":
		a.GetNodesByIdentifier("purl", string(node(a, idx).Purl()))
	case "GetRootNodes":
		a.GetRootNodes()
	case "Match":
		_, err := a.GetMatchingNode(node(b, idx))
		return errText(err)
	case "HashesMatch":
		return fmt.Sprint(node(a, idx).HashesMatch(node(b, idx).Hashes))
	case "Purl":
		return string(node(a, idx).Purl())
	case "PointsTo":
		return fmt.Sprint(edge(a, idx).PointsTo(node(a, idx).Id))
	case "GetEdgeByType":
		e := edge(a, idx)
		a.GetEdgeByType(e.From, e.Type)
	case "WriteSPDX23", "WriteCDX14", "WriteCDX15":
		note, changed := serializeQuery(q, a, idx)
		ev["docchanged"] = changed
		return note
	default:
		panic("vh: unknown query " + q)
	}
	return ""
}

// ---------------------------------------------------------------------------
// heap identity (C12): base addresses of the mutable storage reachable from a value

func (m *gmachine) logHeap(ev map[string]any, names ...string) {
	if !m.heap {
		return
	}
	h := map[string]any{}
	for _, n := range names {
		if nl := m.regs[n]; nl != nil {
			set := map[uintptr]bool{}
			walkHeap(reflect.ValueOf(nl), set)
			ids := []int{}
			for p := range set {
				id, ok := m.addr[p]
				if !ok {
					id = len(m.addr) + 1
					m.addr[p] = id
				}
				ids = append(ids, id)
			}
			sort.Ints(ids)
			h[n] = ids
		}
	}
	ev["heap"] = h
}

var protoMsgType = reflect.TypeOf((*protoreflect.ProtoMessage)(nil)).Elem()

func walkHeap(v reflect.Value, set map[uintptr]bool) {
	switch v.Kind() {
	case reflect.Ptr:
		if v.IsNil() {
			return
		}
		if !v.Type().Implements(protoMsgType) {
			return
		}
		p := v.Pointer()
		if set[p] {
			return
		}
		set[p] = true
		e := v.Elem()
		for i := 0; i < e.NumField(); i++ {
			f := e.Type().Field(i)
			if !f.IsExported() { // protobuf bookkeeping is not user-visible state
				continue
			}
			walkHeap(e.Field(i), set)
		}
	case reflect.Slice:
		if v.IsNil() || v.Cap() == 0 {
			return
		}
		set[uintptr(unsafe.Pointer(v.Pointer()))] = true
		for i := 0; i < v.Len(); i++ {
			walkHeap(v.Index(i), set)
		}
	case reflect.Map:
		if v.IsNil() {
			return
		}
		set[v.Pointer()] = true
		it := v.MapRange()
		for it.Next() {
			walkHeap(it.Value(), set)
		}
	}
}

// ---------------------------------------------------------------------------
// reflective mutation (C12): change the k-th mutable location reachable from a message

type mutPoint struct {
	path string
	do   func()
}

func mutPoints(m protoreflect.Message, path string, out *[]mutPoint) {
	if !m.IsValid() {
		return
	}
	fds := m.Descriptor().Fields()
	for i := 0; i < fds.Len(); i++ {
		fd := fds.Get(i)
		p := path + "." + string(fd.Name())
		switch {
		case fd.IsMap():
			if !m.Has(fd) {
				continue
			}
			mp := m.Get(fd).Map()
			var keys []protoreflect.MapKey
			mp.Range(func(k protoreflect.MapKey, _ protoreflect.Value) bool { keys = append(keys, k); return true })
			sort.Slice(keys, func(a, b int) bool { return keys[a].String() < keys[b].String() })
			for _, k := range keys {
				k := k
				*out = append(*out, mutPoint{p + "[" + k.String() + "]=", func() { mp.Set(k, protoreflect.ValueOfString("MUTATED")) }})
				*out = append(*out, mutPoint{p + "[" + k.String() + "]del", func() { mp.Clear(k) }})
			}
			*out = append(*out, mutPoint{p + "[+]", func() { mp.Set(protoreflect.ValueOfInt32(9999).MapKey(), protoreflect.ValueOfString("MUTATED")) }})
		case fd.IsList():
			if !m.Has(fd) {
				continue
			}
			l := m.Get(fd).List()
			for j := 0; j < l.Len(); j++ {
				j := j
				pj := fmt.Sprintf("%s[%d]", p, j)
				if fd.Kind() == protoreflect.MessageKind {
					mutPoints(l.Get(j).Message(), pj, out)
					*out = append(*out, mutPoint{pj + "=new", func() { l.Set(j, l.NewElement()) }})
				} else {
					*out = append(*out, mutPoint{pj + "=", func() { l.Set(j, mutScalar(fd, l.Get(j))) }})
				}
			}
			// in-place write into spare capacity and length change
			*out = append(*out, mutPoint{p + "[+]", func() {
				ml := m.Mutable(fd).List()
				if fd.Kind() == protoreflect.MessageKind {
					ml.Append(ml.NewElement())
				} else {
					ml.Append(mutScalar(fd, zeroScalar(fd)))
				}
			}})
			*out = append(*out, mutPoint{p + "[-]", func() { m.Mutable(fd).List().Truncate(l.Len() - 1) }})
		case fd.Kind() == protoreflect.MessageKind:
			if !m.Has(fd) {
				continue
			}
			if fd.Message().FullName() == "google.protobuf.Timestamp" {
				sub := m.Get(fd).Message()
				sfd := sub.Descriptor().Fields().ByName("seconds")
				*out = append(*out, mutPoint{p + ".seconds=", func() { sub.Set(sfd, protoreflect.ValueOfInt64(sub.Get(sfd).Int()+7777)) }})
				*out = append(*out, mutPoint{p + ".clear", func() { m.Clear(fd) }})
				continue
			}
			mutPoints(m.Get(fd).Message(), p, out)
		default:
			*out = append(*out, mutPoint{p + "=", func() { m.Set(fd, mutScalar(fd, m.Get(fd))) }})
			if m.Has(fd) && fd.Name() != "id" {
				*out = append(*out, mutPoint{p + ".clear", func() { m.Clear(fd) }})
			}
		}
	}
}

func zeroScalar(fd protoreflect.FieldDescriptor) protoreflect.Value {
	switch fd.Kind() {
	case protoreflect.StringKind:
		return protoreflect.ValueOfString("")
	case protoreflect.BoolKind:
		return protoreflect.ValueOfBool(false)
	case protoreflect.EnumKind:
		return protoreflect.ValueOfEnum(0)
	case protoreflect.Int32Kind:
		return protoreflect.ValueOfInt32(0)
	default:
		return protoreflect.ValueOfInt64(0)
	}
}

func mutScalar(fd protoreflect.FieldDescriptor, old protoreflect.Value) protoreflect.Value {
	switch fd.Kind() {
	case protoreflect.StringKind:
		return protoreflect.ValueOfString(old.String() + "~MUT")
	case protoreflect.BoolKind:
		return protoreflect.ValueOfBool(!old.Bool())
	case protoreflect.EnumKind:
		return protoreflect.ValueOfEnum(old.Enum() + 1)
	case protoreflect.Int32Kind:
		return protoreflect.ValueOfInt32(int32(old.Int()) + 1)
	case protoreflect.Int64Kind:
		return protoreflect.ValueOfInt64(old.Int() + 1)
	}
	return old
}

func mutate(m protoreflect.Message, k int) string {
	var pts []mutPoint
	mutPoints(m, "", &pts)
	if len(pts) == 0 {
		return ""
	}
	if k < 0 {
		k = -k
	}
	p := pts[k%len(pts)]
	p.do()
	return p.path
}
