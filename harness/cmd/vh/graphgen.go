package main

import (
	"encoding/json"
	"flag"
	"fmt"
	"google.golang.org/protobuf/types/known/timestamppb"
	"math/rand"
	"os"
	"sort"

	"github.com/protobom/protobom/pkg/sbom"
	"verifharness/proj"
)

func init() { commands["graph-gen"] = graphGen }

type scriptWriter struct {
	w   *ndWriter
	sid int
}

func (s *scriptWriter) reset(regs map[string]*sbom.NodeList) {
	s.sid++
	pr := map[string]any{}
	for k, v := range regs {
		pr[k] = proj.NodeList(v)
	}
	s.w.write(map[string]any{"op": "Reset", "sid": s.sid, "regs": pr})
}

func (s *scriptWriter) op(name string, kv ...any) {
	ev := map[string]any{"op": name, "sid": s.sid}
	for i := 0; i+1 < len(kv); i += 2 {
		ev[kv[i].(string)] = kv[i+1]
	}
	s.w.write(ev)
}

func emptyNL() *sbom.NodeList { return &sbom.NodeList{} }

// clone is the harness's own deep copy (through the projection), independent of the library's Copy.
func clone(nl *sbom.NodeList) *sbom.NodeList { return proj.ToNodeList(proj.NodeList(nl)) }

var edgeTypes2 = []sbom.Edge_Type{sbom.Edge_contains, sbom.Edge_dependsOn}

// graphGen writes seeded random scripts for the graph machine.
func graphGen(args []string) error {
	fs := flag.NewFlagSet("graph-gen", flag.ExitOnError)
	out := fs.String("out", "", "script file")
	seed := fs.Int64("seed", 1, "seed")
	n := fs.Int("n", 100, "number of scripts")
	length := fs.Int("len", 8, "operations per script")
	nids := fs.Int("ids", 5, "identifier pool size")
	mode := fs.String("mode", "edit", "edit | laws | extract | match | lookup | readonly | heap")
	rich := fs.Float64("rich", 0.15, "probability of each attribute being populated")
	universe := fs.String("universe", "", "allpairs mode: the merge universe exported by TLC from GraphLaws.tla (JSON)")
	fs.Parse(args)
	w, err := newNDWriter(*out)
	if err != nil {
		return err
	}
	defer w.close()
	r := rand.New(rand.NewSource(*seed))
	s := &scriptWriter{w: w}
	ids := idPool(*nids)
	if *mode == "allgraphs" {
		// every (graph, start node) of the TLC-exported universe (--n 0) or a seeded sample of n
		raw, err := os.ReadFile(*universe)
		if err != nil {
			return err
		}
		var u struct {
			All []map[string]any `json:"all"`
		}
		if err := json.Unmarshal(raw, &u); err != nil {
			return err
		}
		sort.Slice(u.All, func(i, j int) bool { return canon(u.All[i]) < canon(u.All[j]) })
		starts := func(g map[string]any) []string {
			out := []string{}
			nodes, _ := g["nodes"].([]any)
			for _, n := range nodes {
				out = append(out, str(n.(map[string]any), "id"))
			}
			sort.Strings(out)
			return append(out, "nope")
		}
		if *n == 0 {
			for _, g := range u.All {
				for _, st := range starts(g) {
					s.sid++
					w.write(map[string]any{"op": "ExtractAll", "sid": s.sid, "g": g, "id": st})
				}
			}
		} else {
			for k := 0; k < *n; k++ {
				g := u.All[r.Intn(len(u.All))]
				s.sid++
				w.write(map[string]any{"op": "ExtractAll", "sid": s.sid, "g": g, "id": pick(r, starts(g))})
			}
		}
		return nil
	}
	if *mode == "allpairs" {
		// ordered pairs of the TLC-exported universe: all of them (--n 0) or a seeded sample of n
		raw, err := os.ReadFile(*universe)
		if err != nil {
			return err
		}
		var u struct {
			All []map[string]any `json:"all"`
		}
		if err := json.Unmarshal(raw, &u); err != nil {
			return err
		}
		sort.Slice(u.All, func(i, j int) bool { return canon(u.All[i]) < canon(u.All[j]) })
		emit := func(i, j int) {
			s.sid++
			w.write(map[string]any{"op": "Pair", "sid": s.sid, "x": u.All[i], "y": u.All[j]})
		}
		// every single list through every removal and every relating of a node
		for i := range u.All {
			s.sid++
			w.write(map[string]any{"op": "EditAll", "sid": s.sid, "x": u.All[i]})
		}
		switch {
		case *n == 0:
			for i := range u.All {
				for j := range u.All {
					emit(i, j)
				}
			}
		case *n > 0:
			for k := 0; k < *n; k++ {
				emit(r.Intn(len(u.All)), r.Intn(len(u.All)))
			}
		}
		return nil
	}
	for i := 0; i < *n; i++ {
		switch *mode {
		case "edit":
			genEdit(r, s, ids, *length, *rich)
		case "laws":
			genLaws(r, s, ids, *rich)
		case "extract":
			genExtract(r, s, ids)
		case "match":
			genMatch(r, s, ids)
		case "lookup":
			genLookup(r, s, ids)
		case "readonly":
			genReadonly(r, s, ids, *length)
		case "heap":
			genHeap(r, s, ids, *length)
		default:
			panic("unknown mode")
		}
	}
	return nil
}

func regName(r *rand.Rand, names ...string) string { return names[r.Intn(len(names))] }

// genEdit: well-formed registers, arbitrary sequences of editing operations (C08).
func genEdit(r *rand.Rand, s *scriptWriter, ids []string, length int, rich float64) {
	// well-formed registers; a third of the scripts start from lists that are well-formed but not normalised
	o := listOpts{ids: ids, rich: rich, types: edgeTypes2, maxNodes: len(ids), parallel: r.Intn(3) == 0}
	r1, r2 := randList(r, o), randList(r, o)
	s.reset(map[string]*sbom.NodeList{"r1": r1, "r2": r2, "r3": randList(r, o), "r4": emptyNL()})
	all := append(append([]string{}, ids...), "nope")
	if len(ids) >= 12 && r.Intn(4) == 1 {
		// many edges (more than any small-input shortcut of a sort), several per (source, type), far apart in the list
		many := &sbom.NodeList{}
		for _, id := range ids[:12] {
			many.Nodes = append(many.Nodes, randNode(r, id, rich))
		}
		for k := 0; k < 36; k++ {
			many.Edges = append(many.Edges, &sbom.Edge{Type: edgeTypes2[(k/6)%2], From: ids[k%6], To: []string{ids[6+(k*5)%6], ids[(k*7)%12]}})
		}
		r.Shuffle(len(many.Edges), func(a, b int) { many.Edges[a], many.Edges[b] = many.Edges[b], many.Edges[a] })
		many.RootElements = []string{ids[0]}
		r1 = many
		s.sid--
		s.reset(map[string]*sbom.NodeList{"r1": r1, "r2": r2, "r3": randList(r, o), "r4": emptyNL()})
		s.op("Remove", "a", "r1", "ids", []string{ids[11]})
		s.op("Union", "a", "r1", "b", "r2", "out", "r4")
		s.op("Graph", "a", "r1", "id", ids[0], "out", "r4")
	}
	if len(ids) >= 12 && r.Intn(4) == 0 {
		// three parallel edges of one source and type: a wide one, a narrow one that introduces a new target, a wide one
		// that repeats it (normalisation must not depend on how many targets an edge has)
		wide := &sbom.NodeList{}
		for _, id := range ids[:12] {
			wide.Nodes = append(wide.Nodes, randNode(r, id, rich))
		}
		t := pick(r, edgeTypes2)
		wide.Edges = []*sbom.Edge{
			{Type: t, From: ids[0], To: append([]string{}, ids[1:10]...)},
			{Type: t, From: ids[0], To: []string{ids[10]}},
			{Type: t, From: ids[0], To: append(append([]string{}, ids[1:9]...), ids[10], ids[11])},
		}
		wide.RootElements = []string{ids[0]}
		r1 = wide
		s.sid-- // replace the registers of this script
		s.reset(map[string]*sbom.NodeList{"r1": r1, "r2": r2, "r3": randList(r, o), "r4": emptyNL()})
		s.op("Remove", "a", "r1", "ids", []string{ids[11]})
		s.op("Descendants", "a", "r1", "id", ids[0], "depth", 2, "out", "r4")
		s.op("Union", "a", "r1", "b", "r2", "out", "r4")
	}
	if len(r1.Nodes) > 0 && len(r2.RootElements) > 0 && r.Intn(3) == 0 {
		// graft one list under a node of the other, then edit the grafted list: the two must stay independent
		s.op("RelateList", "a", "r1", "b", "r2", "at", r1.Nodes[r.Intn(len(r1.Nodes))].Id, "t", int(pick(r, edgeTypes2)))
		s.op("Remove", "a", "r2", "ids", []string{r2.RootElements[0]})
	}
	for j := 0; j < length; j++ {
		a := regName(r, "r1", "r2", "r3", "r4")
		b := regName(r, "r1", "r2", "r3", "r4")
		out := regName(r, "r1", "r2", "r3", "r4")
		switch r.Intn(11) {
		case 0:
			s.op("Union", "a", a, "b", b, "out", out)
		case 1:
			s.op("Intersect", "a", a, "b", b, "out", out)
		case 2:
			if a != b {
				s.op("Add", "a", a, "b", b)
			}
		case 3:
			k := r.Intn(3)
			rm := []string{}
			for q := 0; q < k; q++ {
				rm = append(rm, pick(r, all))
			}
			s.op("Remove", "a", a, "ids", rm)
		case 4:
			s.op("RelateNode", "a", a, "n", proj.Node(randNode(r, pick(r, all), rich)), "at", pick(r, all), "t", int(pick(r, edgeTypes2)))
		case 5:
			if a != b {
				s.op("RelateList", "a", a, "b", b, "at", pick(r, all), "t", int(pick(r, edgeTypes2)))
			}
		case 6:
			s.op("Graph", "a", a, "id", pick(r, all), "out", out)
		case 7:
			s.op("Siblings", "a", a, "id", pick(r, all), "out", out)
		case 8:
			s.op("Descendants", "a", a, "id", pick(r, all), "depth", pick(r, []int{-2, 0, 1, 1, 2, 2, 3, 4, 1 << 30}), "out", out)
		case 9:
			s.op("ByPurlType", "a", a, "ptype", pick(r, []string{"npm", "golang", "deb", "generic"}), "out", out)
		case 10:
			s.op("Copy", "a", a, "out", out)
		}
	}
}

// genLaws: pairs and triples, ill-formed included; union / add / intersect and their laws (C09, C10).
func genLaws(r *rand.Rand, s *scriptWriter, ids []string, rich float64) {
	o := listOpts{ids: ids, rich: rich, types: edgeTypes2, maxNodes: len(ids), ill: r.Intn(2) == 0}
	x, y, z := randList(r, o), randList(r, o), randList(r, o)
	if r.Intn(8) == 0 {
		y = emptyNL()
	}
	if r.Intn(8) == 0 {
		y = clone(x)
	}
	if r.Intn(3) == 0 {
		// shared nodes that compare Equal without being identical (lists in another order, a sub-second date shift):
		// the second operand's value still wins
		present := map[string]int{}
		for i, n := range y.Nodes {
			present[n.Id] = i
		}
		for _, n := range x.Nodes {
			twin := shuffleNode(r, n)
			for _, ts := range []*timestamppb.Timestamp{twin.ReleaseDate, twin.BuildDate, twin.ValidUntilDate} {
				if ts != nil {
					ts.Nanos = (ts.Nanos + 7) % 1000000000
				}
			}
			if i, ok := present[n.Id]; ok {
				y.Nodes[i] = twin
			} else if r.Intn(2) == 0 {
				y.Nodes = append(y.Nodes, twin)
			}
		}
	}
	if r.Intn(6) == 0 && !o.ill {
		// a node whose identifier is the empty string is a node like any other (a component without reference)
		x.Nodes = append(x.Nodes, randNode(r, "", rich))
		if len(x.Nodes) > 1 {
			x.Edges = append(x.Edges, &sbom.Edge{Type: pick(r, edgeTypes2), From: "", To: []string{x.Nodes[0].Id}},
				&sbom.Edge{Type: pick(r, edgeTypes2), From: x.Nodes[0].Id, To: []string{""}})
		}
		if r.Intn(2) == 0 {
			y.Nodes = append(y.Nodes, randNode(r, "", rich))
		}
	}
	regs := map[string]*sbom.NodeList{"x": x, "y": y, "z": z, "e": emptyNL()}
	for _, k := range []string{"xy", "yx", "xx", "xe", "ex", "yz", "xy_z", "x_yz", "ixy", "iyx", "ixx", "ixe", "iex", "ixu", "ax", "axx"} {
		regs[k] = emptyNL()
	}
	s.reset(regs)
	s.op("Union", "a", "x", "b", "y", "out", "xy")
	s.op("Union", "a", "y", "b", "x", "out", "yx")
	s.op("LawSame", "a", "xy", "b", "yx", "law", "union.commutative")
	s.op("Union", "a", "x", "b", "x", "out", "xx")
	s.op("LawSameClean", "a", "xx", "b", "x", "law", "union.idempotent")
	s.op("Union", "a", "x", "b", "e", "out", "xe")
	s.op("LawSameClean", "a", "xe", "b", "x", "law", "union.identity-right")
	s.op("Union", "a", "e", "b", "x", "out", "ex")
	s.op("LawSameClean", "a", "ex", "b", "x", "law", "union.identity-left")
	s.op("Union", "a", "y", "b", "z", "out", "yz")
	s.op("Union", "a", "xy", "b", "z", "out", "xy_z")
	s.op("Union", "a", "x", "b", "yz", "out", "x_yz")
	s.op("LawSameIfClosed", "a", "xy_z", "b", "x_yz", "c", []string{"x", "y", "z"}, "law", "union.associative")
	// in-place variant on a copy of x
	s.op("Copy", "a", "x", "out", "ax")
	s.op("Add", "a", "ax", "b", "y")
	s.op("LawSame", "a", "ax", "b", "xy", "law", "add.same-sets-as-union")
	s.op("Copy", "a", "x", "out", "axx")
	s.op("Add", "a", "axx", "b", "e")
	s.op("LawSameClean", "a", "axx", "b", "x", "law", "add.identity")
	// intersection
	s.op("Intersect", "a", "x", "b", "y", "out", "ixy")
	s.op("Intersect", "a", "y", "b", "x", "out", "iyx")
	s.op("LawSame", "a", "ixy", "b", "iyx", "law", "intersect.commutative")
	s.op("Intersect", "a", "x", "b", "x", "out", "ixx")
	s.op("LawSameCleanStrict", "a", "ixx", "b", "x", "law", "intersect.idempotent")
	s.op("Intersect", "a", "x", "b", "e", "out", "ixe")
	s.op("LawEmpty", "a", "ixe", "law", "intersect.empty-right")
	s.op("Intersect", "a", "e", "b", "x", "out", "iex")
	s.op("LawEmpty", "a", "iex", "law", "intersect.empty-left")
	s.op("Intersect", "a", "x", "b", "xy", "out", "ixu")
	s.op("LawIds", "a", "ixu", "b", "x", "law", "intersect.absorbs-union")
	// "the same second-operand-wins rule as union": whatever union does with a shared node, intersection does too
	s.op("LawSameSharedNodes", "a", "ixy", "b", "xy", "law", "intersect.nodes-as-union")
}

func shuffled(r *rand.Rand, nl *sbom.NodeList) *sbom.NodeList {
	c := &sbom.NodeList{}
	for _, i := range r.Perm(len(nl.Nodes)) {
		c.Nodes = append(c.Nodes, proj.ToNode(proj.Node(nl.Nodes[i])))
	}
	for _, i := range r.Perm(len(nl.Edges)) {
		e := nl.Edges[i]
		ne := &sbom.Edge{Type: e.Type, From: e.From}
		for _, j := range r.Perm(len(e.To)) {
			ne.To = append(ne.To, e.To[j])
		}
		c.Edges = append(c.Edges, ne)
	}
	for _, i := range r.Perm(len(nl.RootElements)) {
		c.RootElements = append(c.RootElements, nl.RootElements[i])
	}
	return c
}

// genExtract: arbitrary multigraphs, every start node and depth, on the list and on a shuffled copy (C15).
// genExtractBig: sizes and shapes beyond what the random generator reaches: a list of 300 nodes holding two
// applications (the second root is reachable from the first), and a chain of 30 diamonds (2^30 paths, 91 nodes).
func genExtractBig(s *scriptWriter, which int) {
	g := &sbom.NodeList{}
	add := func(id string) { g.Nodes = append(g.Nodes, &sbom.Node{Id: id}) }
	edge := func(from string, to ...string) {
		g.Edges = append(g.Edges, &sbom.Edge{Type: sbom.Edge_contains, From: from, To: to})
	}
	starts := []string{}
	if which == 0 {
		add("app")
		add("tools")
		for i := 0; i < 298; i++ {
			id := fmt.Sprintf("p%d", i)
			add(id)
			if i < 200 {
				edge("app", id)
			} else {
				edge("tools", id)
			}
		}
		edge("p7", "tools") // the other application is reached from inside the first one
		edge("p250", "p3")
		g.RootElements = []string{"app", "tools"}
		starts = []string{"app", "tools", "p7"}
	} else {
		add("d0")
		for k := 0; k < 30; k++ {
			l, rr, nx := fmt.Sprintf("d%d-l", k), fmt.Sprintf("d%d-r", k), fmt.Sprintf("d%d", k+1)
			add(l)
			add(rr)
			add(nx)
			edge(fmt.Sprintf("d%d", k), l, rr)
			edge(l, nx)
			edge(rr, nx)
		}
		g.RootElements = []string{"d0"}
		starts = []string{"d0", "d15"}
	}
	s.reset(map[string]*sbom.NodeList{"g": g, "o1": emptyNL()})
	for _, id := range starts {
		s.op("Graph", "a", "g", "id", id, "out", "o1")
		s.op("Siblings", "a", "g", "id", id, "out", "o1")
		for _, d := range []int{1, 2, 40, 200} {
			s.op("Descendants", "a", "g", "id", id, "depth", d, "out", "o1")
		}
	}
}

func genExtract(r *rand.Rand, s *scriptWriter, ids []string) {
	if s.sid < 2 && len(ids) > 5 {
		genExtractBig(s, s.sid) // the first two scripts of the larger generator are the big ones
		return
	}
	o := listOpts{ids: ids, rich: 0.05, types: edgeTypes2, maxNodes: len(ids), ill: r.Intn(3) == 0}
	if r.Intn(4) == 1 {
		// every relationship type of the schema (and two numbers outside it): a traversal follows edges of any type
		o.types = nil
		for k := 0; k < 6; k++ {
			o.types = append(o.types, sbom.Edge_Type(r.Intn(47)))
		}
	}
	if r.Intn(4) == 0 {
		// identifiers that continue one another by digits, edge types whose numbers continue those digits, and several
		// types along a path: ("p1", type 15) and ("p11", type 5) are different (source, type) pairs
		ids = []string{"p", "p1", "p11", "p15", "p115"}[:min(len(ids), 5)]
		o.ids, o.maxNodes = ids, len(ids)
		o.types = []sbom.Edge_Type{1, 5, 11, 15, 51}
	}
	g := randList(r, o)
	regs := map[string]*sbom.NodeList{"g": g, "p": shuffled(r, g)}
	for _, k := range []string{"o1", "o2", "o3", "d1", "d2"} {
		regs[k] = emptyNL()
	}
	s.reset(regs)
	s.op("LawSame", "a", "g", "b", "p", "law", "harness.shuffle")
	starts := append(append([]string{}, ids...), "nope")
	for _, id := range starts {
		s.op("Graph", "a", "g", "id", id, "out", "o1")
		s.op("Graph", "a", "p", "id", id, "out", "o2")
		s.op("LawSameOrNil", "a", "o1", "b", "o2", "law", "graph.order-independent")
		s.op("Siblings", "a", "g", "id", id, "out", "o1")
		s.op("Siblings", "a", "p", "id", id, "out", "o2")
		s.op("LawSameOrNil", "a", "o1", "b", "o2", "law", "siblings.order-independent")
		for d := 1; d <= len(ids)+1; d++ {
			s.op("Descendants", "a", "g", "id", id, "depth", d, "out", "d2")
			s.op("Descendants", "a", "p", "id", id, "depth", d, "out", "o2")
			s.op("LawSameOrNil", "a", "d2", "b", "o2", "law", "descendants.order-independent")
			if d > 1 {
				s.op("LawSubset", "a", "d1", "b", "d2", "law", "descendants.monotone")
			}
			s.op("Copy", "a", "d2", "out", "d1")
		}
	}
}

func matchNode(r *rand.Rand, id string) *sbom.Node {
	n := &sbom.Node{Id: id, Name: pick(r, []string{"", "nm1", "nm2"})}
	if r.Intn(5) == 0 {
		n.Type = sbom.Node_FILE
	}
	for _, algo := range []int32{1, 2, 3} {
		if r.Intn(2) == 0 {
			if n.Hashes == nil {
				n.Hashes = map[int32]string{}
			}
			n.Hashes[algo] = pick(r, []string{"v", "w", "v", "w", ""}) // an empty value is a value: it agrees only with an empty value
		}
	}
	if r.Intn(3) > 0 {
		n.Identifiers = map[int32]string{}
		if r.Intn(4) > 0 { // also on FILE nodes: a file may carry a package URL identifier, it just has no purl of its own
			n.Identifiers[1] = pick(r, []string{"pkg:npm/p@1", "pkg:npm/q@1", "pkg:npm/p@1", "pkg:npm/q@1", "npm/p@1", "/npm/q@1", "pkg:/npm/p@1"})
		}
		if r.Intn(3) == 0 {
			n.Identifiers[3] = pick(r, []string{"cpe:2.3:a:x", "cpe:2.3:a:y"})
		}
		if r.Intn(4) == 0 {
			n.Identifiers[2] = "cpe:/a:x"
		}
	}
	return n
}

// genMatch: node matching on the list and on shuffles of it, each repeated (map iteration order) (C16).
func genMatch(r *rand.Rand, s *scriptWriter, ids []string) {
	if s.sid == 0 {
		// one list beyond any size threshold (a prime number of nodes): the only hash match sits at the very end, a
		// second probe matches two nodes far apart
		g := &sbom.NodeList{}
		for i := 0; i < 1031; i++ {
			g.Nodes = append(g.Nodes, &sbom.Node{Id: fmt.Sprintf("n%d", i), Hashes: map[int32]string{3: fmt.Sprintf("%064d", i)}})
		}
		g.Nodes[3].Hashes = map[int32]string{3: "twin"}
		g.Nodes[1029].Hashes = map[int32]string{3: "twin"}
		s.reset(map[string]*sbom.NodeList{"g": g})
		for _, h := range []string{fmt.Sprintf("%064d", 1030), fmt.Sprintf("%064d", 0), fmt.Sprintf("%064d", 515), "twin", "nobody"} {
			s.op("Match", "a", "g", "p", proj.Node(&sbom.Node{Id: "probe", Hashes: map[int32]string{3: h}}))
		}
		return
	}
	g := &sbom.NodeList{}
	for _, id := range ids[:1+r.Intn(len(ids))] {
		g.Nodes = append(g.Nodes, matchNode(r, id))
	}
	s.reset(map[string]*sbom.NodeList{"g": g, "p1": shuffled(r, g), "p2": shuffled(r, g)})
	for q := 0; q < 4; q++ {
		p := proj.Node(matchNode(r, "probe"))
		for _, reg := range []string{"g", "p1", "p2"} {
			for rep := 0; rep < 3; rep++ {
				s.op("Match", "a", reg, "p", p)
			}
		}
		if q == 2 && len(g.Nodes) > 0 {
			for k := 0; k < 3; k++ { // the probe is the k-th element of the list itself
				s.op("Match", "a", "g", "p", map[string]any{"id": "placeholder", "type": 0}, "self", r.Intn(16))
			}
		}
		if q == 1 && len(g.Nodes) > 0 {
			// the list changes in place between two rounds of matching (one node replaced by another: the count stays):
			// an answer must come from the list as it is now
			victim := g.Nodes[r.Intn(len(g.Nodes))]
			repl := matchNode(r, victim.Id+"-new")
			if r.Intn(2) == 0 {
				repl.Hashes, repl.Identifiers = victim.Hashes, victim.Identifiers
			}
			probe := proj.Node(&sbom.Node{Id: "probe", Hashes: victim.Hashes, Identifiers: victim.Identifiers})
			for _, reg := range []string{"g", "p1"} {
				// match, edit, match again on the SAME list with nothing else matched in between
				s.op("Match", "a", reg, "p", probe)
				s.op("Remove", "a", reg, "ids", []string{victim.Id})
				s.op("AddNode", "a", reg, "n", proj.Node(repl))
				s.op("Match", "a", reg, "p", probe)
			}
			s.op("Match", "a", "p2", "p", probe)
		}
	}
}

// genLookup: plain lookups with repeated names, identifiers and ids (C16).
func genLookup(r *rand.Rand, s *scriptWriter, ids []string) {
	g := &sbom.NodeList{}
	for _, id := range ids {
		if r.Intn(4) > 0 {
			g.Nodes = append(g.Nodes, matchNode(r, id))
		}
	}
	if len(g.Nodes) > 0 && r.Intn(3) == 0 { // a repeated identifier
		g.Nodes = append(g.Nodes, matchNode(r, g.Nodes[0].Id))
	}
	for _, id := range append(append([]string{}, ids...), "ghost") {
		if r.Intn(3) == 0 {
			g.RootElements = append(g.RootElements, id)
		}
	}
	s.reset(map[string]*sbom.NodeList{"g": g, "o": emptyNL()})
	for _, id := range append(append([]string{}, ids...), "ghost", "") {
		s.op("GetNodeByID", "a", "g", "id", id)
	}
	for _, nm := range []string{"", "nm1", "nm2", "nm3"} {
		s.op("GetNodesByName", "a", "g", "name", nm)
	}
	for _, t := range []string{"purl", "cpe22Type", "cpe23Type", "gitoid", "cpe22", "cpe2.3", "Cpe23", " cpe2.2 ", "bogus", ""} {
		for _, v := range []string{"pkg:npm/p@1", "pkg:npm/q@1", "cpe:2.3:a:x", "cpe:/a:x", ""} {
			s.op("GetNodesByIdentifier", "a", "g", "t", t, "v", v)
		}
	}
	s.op("GetRootNodes", "a", "g")
	for _, pt := range []string{"npm", "golang", "np", ""} {
		s.op("ByPurlType", "a", "g", "ptype", pt, "out", "o")
	}
}

var readonlyQueries = []string{"ListEqual", "NodeEqual", "EdgeEqual", "NodeChecksum", "NodeDiff", "NodeCopy", "EdgeCopy",
	"ListCopy", "PersonCopy", "ExtRefCopy", "Union", "Intersect", "Graph", "Siblings", "Descendants", "ByPurlType",
	"GetNodeByID", "GetNodesByName", "GetNodesByIdentifier", "GetRootNodes", "Match", "HashesMatch", "Purl", "PointsTo",
	"GetEdgeByType", "WriteSPDX23", "WriteCDX14", "WriteCDX15"}

// genReadonly: richly populated operands with unsorted collections; every read-only operation (C11).
func genReadonly(r *rand.Rand, s *scriptWriter, ids []string, length int) {
	o := listOpts{ids: ids, rich: 0.6, types: edgeTypes2, maxNodes: len(ids), ill: r.Intn(4) == 0}
	a, b := randList(r, o), randList(r, o)
	if r.Intn(3) == 0 {
		b = shuffled(r, a)
	}
	s.reset(map[string]*sbom.NodeList{"a": a, "b": b})
	for j := 0; j < length; j++ {
		x, y := "a", "b"
		if r.Intn(2) == 0 {
			x, y = "b", "a"
		}
		s.op("Query", "q", pick(r, readonlyQueries), "a", x, "b", y, "i", r.Intn(8))
	}
}

// genHeap: op; Mutate; op; Mutate histories over shared operands (C12).
func genHeap(r *rand.Rand, s *scriptWriter, ids []string, length int) {
	// a third of the histories start from well-formed lists that are not normalised (repeated targets, several edges per
	// source and type): a copy must reproduce them as they are
	o := listOpts{ids: ids, rich: 0.5, types: edgeTypes2, maxNodes: len(ids), parallel: r.Intn(3) == 0}
	ha, hb := randList(r, o), randList(r, o)
	if r.Intn(2) == 0 {
		// a node present in both operands that has dates and nothing else (no list, no map): its dates are mutable
		// messages like any nested value
		ha.Nodes = append(ha.Nodes, &sbom.Node{Id: "dates-only", ReleaseDate: &timestamppb.Timestamp{Seconds: 1577934245}})
		hb.Nodes = append(hb.Nodes, &sbom.Node{Id: "dates-only", ReleaseDate: &timestamppb.Timestamp{Seconds: 946684800, Nanos: 5},
			BuildDate: &timestamppb.Timestamp{Seconds: 1700166898}})
	}
	s.reset(map[string]*sbom.NodeList{"a": ha, "b": hb, "c": emptyNL(), "d": emptyNL()})
	regs := []string{"a", "b", "c", "d"}
	for j := 0; j < length; j++ {
		x, y := pick(r, regs), pick(r, regs)
		out := pick(r, []string{"c", "d"})
		switch r.Intn(7) {
		case 6:
			s.op("CopyElem", "a", x, "k", r.Intn(1<<10))
		case 0:
			s.op("Copy", "a", x, "out", out)
		case 1:
			s.op("Union", "a", x, "b", y, "out", out)
		case 2:
			s.op("Intersect", "a", x, "b", y, "out", out)
		default:
			s.op("Mutate", "a", pick(r, regs), "k", r.Intn(1<<20))
		}
	}
}
