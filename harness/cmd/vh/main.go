// vh is the conformance harness: it executes scripts (calls only) on the real
// protobom code and records what happened as ndjson traces that the TLA+
// trace specifications in /verif/spec judge.  It never decides a verdict.
package main

import (
	"bufio"
	"encoding/json"
	"fmt"
	"os"
	"sort"
)

var commands = map[string]func(args []string) error{}

func main() {
	if len(os.Args) < 2 {
		fmt.Fprintln(os.Stderr, "usage: vh <command> [flags]")
		for k := range commands {
			fmt.Fprintln(os.Stderr, "  ", k)
		}
		os.Exit(2)
	}
	cmd, ok := commands[os.Args[1]]
	if !ok {
		fmt.Fprintf(os.Stderr, "vh: unknown command %q\n", os.Args[1])
		os.Exit(2)
	}
	if err := cmd(os.Args[2:]); err != nil {
		fmt.Fprintf(os.Stderr, "vh %s: %v\n", os.Args[1], err)
		os.Exit(2)
	}
}

// ndjson helpers -------------------------------------------------------------

type ndWriter struct {
	f *os.File
	w *bufio.Writer
	n int
}

func newNDWriter(path string) (*ndWriter, error) {
	f, err := os.Create(path)
	if err != nil {
		return nil, err
	}
	return &ndWriter{f: f, w: bufio.NewWriterSize(f, 1<<20)}, nil
}

func (w *ndWriter) write(v any) {
	b, err := json.Marshal(v)
	if err != nil {
		panic(err)
	}
	w.w.Write(b)
	w.w.WriteByte('\n')
	w.n++
}

func (w *ndWriter) flush() { w.w.Flush() }

func (w *ndWriter) close() error {
	w.w.Flush()
	return w.f.Close()
}

func readND(path string, fn func(m map[string]any) error) error {
	f, err := os.Open(path)
	if err != nil {
		return err
	}
	defer f.Close()
	sc := bufio.NewScanner(f)
	sc.Buffer(make([]byte, 1<<20), 1<<28)
	for sc.Scan() {
		line := sc.Bytes()
		if len(line) == 0 {
			continue
		}
		var m map[string]any
		if err := json.Unmarshal(line, &m); err != nil {
			return fmt.Errorf("bad json line: %v", err)
		}
		if err := fn(m); err != nil {
			return err
		}
	}
	return sc.Err()
}

func str(m map[string]any, k string) string {
	s, _ := m[k].(string)
	return s
}

func integer(m map[string]any, k string) int {
	switch x := m[k].(type) {
	case float64:
		return int(x)
	case int:
		return x
	}
	return 0
}

func obj(m map[string]any, k string) map[string]any {
	o, _ := m[k].(map[string]any)
	return o
}

func strs(m map[string]any, k string) []string {
	if ss, ok := m[k].([]string); ok {
		return ss
	}
	arr, _ := m[k].([]any)
	out := []string{}
	for _, a := range arr {
		s, _ := a.(string)
		out = append(out, s)
	}
	return out
}

func canon(v any) string {
	b, err := json.Marshal(v)
	if err != nil {
		panic(err)
	}
	return string(b)
}

func sortStrings(s []string) { sort.Strings(s) }

func jsonUnmarshal(b []byte, v any) error { return json.Unmarshal(b, v) }
