package main

import (
	"flag"
	"fmt"
	"google.golang.org/protobuf/proto"
	"math/rand"
	"sort"
	"strings"
	"time"

	"github.com/protobom/protobom/pkg/sbom"
	"google.golang.org/protobuf/reflect/protoreflect"
	"verifharness/proj"
)

func init() { commands["node-run"] = nodeRun }

const sepChars = ":()[]+"

// sepFact reports whether a string that occurs in only one of the two projected operands (as a
// multiset of strings) contains a separator character of the flattened encoding: only such
// pairs can be separator collisions.
func sepFact(a, b any) bool {
	count := map[string]int{}
	var walk func(v any, d int)
	walk = func(v any, d int) {
		switch x := v.(type) {
		case string:
			count[x] += d
		case map[string]any:
			for _, e := range x {
				walk(e, d)
			}
		case []any:
			for _, e := range x {
				walk(e, d)
			}
		}
	}
	walk(a, 1)
	walk(b, -1)
	for s, c := range count {
		if c != 0 && strings.ContainsAny(s, sepChars) {
			return true
		}
	}
	return false
}

func cloneNode(n *sbom.Node) *sbom.Node { return proj.ToNode(proj.Node(n)) }

// shuffleNode permutes every top-level repeated field of a clone of n.
func shuffleNode(r *rand.Rand, n *sbom.Node) *sbom.Node {
	c := cloneNode(n)
	m := c.ProtoReflect()
	fds := m.Descriptor().Fields()
	for i := 0; i < fds.Len(); i++ {
		fd := fds.Get(i)
		if !fd.IsList() || !m.Has(fd) {
			continue
		}
		l := m.Mutable(fd).List()
		for j := l.Len() - 1; j > 0; j-- {
			k := r.Intn(j + 1)
			a, b := l.Get(j), l.Get(k)
			if fd.Kind() == protoreflect.MessageKind {
				// swap by value: re-set cloned messages
				ca, cb := a.Message().Interface(), b.Message().Interface()
				l.Set(j, protoreflect.ValueOfMessage(cb.ProtoReflect()))
				l.Set(k, protoreflect.ValueOfMessage(ca.ProtoReflect()))
			} else {
				l.Set(j, b)
				l.Set(k, a)
			}
		}
	}
	return c
}

// separator attacks: pairs that differ in content but whose flattened encodings may coincide
// adjFact is a derived fact about two projected nodes: they differ ONLY in their node-level hashes, and writing each
// hashes map as its "key:value" entries in the order of the keys read as strings, with nothing in between, gives the same
// text for both ({1:"a",12:"b"} and {1:"a1",2:"b"} both read "1:a12:b").  Computed from the projections alone.
func adjFact(a, b any) bool {
	ma, ok1 := a.(map[string]any)
	mb, ok2 := b.(map[string]any)
	if !ok1 || !ok2 {
		return false
	}
	flat := func(m map[string]any) (string, bool) {
		pairs, ok := m["hashes"].([]any)
		if !ok {
			return "", false
		}
		kv := map[string]string{}
		keys := []string{}
		for _, p := range pairs {
			pr, ok := p.([]any)
			if !ok || len(pr) != 2 {
				return "", false
			}
			k := fmt.Sprint(pr[0])
			keys = append(keys, k)
			kv[k] = fmt.Sprint(pr[1])
		}
		sort.Strings(keys)
		out := ""
		for _, k := range keys {
			out += k + ":" + kv[k]
		}
		return out, true
	}
	fa, oka := flat(ma)
	fb, okb := flat(mb)
	if !oka || !okb || fa != fb {
		return false
	}
	rest := func(m map[string]any) string {
		c := map[string]any{}
		for k, v := range m {
			if k != "hashes" {
				c[k] = v
			}
		}
		return canon(c)
	}
	return rest(ma) == rest(mb) && canon(ma["hashes"]) != canon(mb["hashes"])
}

func attackPairs() [][2]*sbom.Node {
	return [][2]*sbom.Node{
		{{Id: "i", Name: "x", Version: "y"}, {Id: "i", Name: "x:protobom.protobom.Node.version:y"}},
		{{Id: "i", Hashes: map[int32]string{1: "a", 2: "b"}}, {Id: "i", Hashes: map[int32]string{1: "a2:b"}}},
		{{Id: "i", Licenses: []string{"a", "b"}}, {Id: "i", Licenses: []string{"aprotobom.protobom.Node.licenses[1]:b"}}},
		{{Id: "i", ExternalReferences: []*sbom.ExternalReference{{Url: "u", Comment: "c"}}}, {Id: "i", ExternalReferences: []*sbom.ExternalReference{{Url: "u(c)c"}}}},
		{{Id: "i", Suppliers: []*sbom.Person{{Name: "n", Email: "e"}}}, {Id: "i", Suppliers: []*sbom.Person{{Name: "n)o(false)email(e"}}}},
		{{Id: "i", Identifiers: map[int32]string{1: "p", 2: "q"}}, {Id: "i", Identifiers: map[int32]string{1: "p:identifiers[2]:q"}}},
		{{Id: "i", Comment: "a", Copyright: "b"}, {Id: "i", Comment: "a:protobom.protobom.Node.copyright:b"}},
		{{Id: "i", Suppliers: []*sbom.Person{{Name: "n"}}, Originators: nil}, {Id: "i", Originators: []*sbom.Person{{Name: "n"}}}},
		{{Id: "i", Attribution: []string{"x"}}, {Id: "i", FileTypes: []string{"x"}}},
		{{Id: "i", ReleaseDate: nil, Name: "protobom.protobom.Node.release_date:5"}, {Id: "i", Name: "protobom.protobom.Node.release_date:5", Version: ""}},
		// map entries next to each other: a digest followed by the next algorithm number (no separator character in any value)
		{{Id: "i", Hashes: map[int32]string{1: "a", 12: "b"}}, {Id: "i", Hashes: map[int32]string{1: "a1", 2: "b"}}},
		{{Id: "i", Hashes: map[int32]string{3: "a", 14: "b"}}, {Id: "i", Hashes: map[int32]string{3: "a1", 4: "b"}}},
		{{Id: "i", Identifiers: map[int32]string{1: "p", 12: "q"}}, {Id: "i", Identifiers: map[int32]string{1: "p1", 2: "q"}}},
		{{Id: "i", ExternalReferences: []*sbom.ExternalReference{{Url: "u", Hashes: map[int32]string{1: "d41d8c", 12: "af1349"}}}},
			{Id: "i", ExternalReferences: []*sbom.ExternalReference{{Url: "u", Hashes: map[int32]string{1: "d41d8c1", 2: "af1349"}}}}},
		// text that a formatting function would read as a directive
		{{Id: "i", Name: "release%2Fv1"}, {Id: "i", Name: "release%3Fv1"}},
		{{Id: "i", UrlHome: "e.org/a%20b"}, {Id: "i", UrlHome: "e.org/a%2520b"}},
		{{Id: "i", Comment: "100%+free"}, {Id: "i", Comment: "100%-free"}},
		// (no separator character of the flattened encoding in these values: they are not the known separator collisions)
		{{Id: "i", ExternalReferences: []*sbom.ExternalReference{{Url: "e.org/protobom%20sbom.json", Comment: "50%d"}}},
			{Id: "i", ExternalReferences: []*sbom.ExternalReference{{Url: "e.org/protobom%2520sbom.json", Comment: "50%d"}}}},
		{{Id: "i", ExternalReferences: []*sbom.ExternalReference{{Url: "u", Comment: "release%2Fv1", Authority: "a%5d"}}},
			{Id: "i", ExternalReferences: []*sbom.ExternalReference{{Url: "u", Comment: "release%3Fv1", Authority: "a%7d"}}}},
		{{Id: "i", Suppliers: []*sbom.Person{{Name: "n%s"}}}, {Id: "i", Suppliers: []*sbom.Person{{Name: "n%v"}}}},
		// a map entry whose value is the empty string is an entry
		{{Id: "i", Hashes: map[int32]string{1: "a", 2: ""}}, {Id: "i", Hashes: map[int32]string{1: "a"}}},
		{{Id: "i", ExternalReferences: []*sbom.ExternalReference{{Url: "u", Hashes: map[int32]string{1: "a", 2: ""}}}},
			{Id: "i", ExternalReferences: []*sbom.ExternalReference{{Url: "u", Hashes: map[int32]string{1: "a"}}}}},
		{{Id: "i", Identifiers: map[int32]string{1: ""}}, {Id: "i"}},
	}
}

func nodeRun(args []string) error {
	fs := flag.NewFlagSet("node-run", flag.ExitOnError)
	out := fs.String("out", "", "trace file")
	seed := fs.Int64("seed", 1, "seed")
	n := fs.Int("n", 100, "number of base nodes")
	mode := fs.String("mode", "eq", "eq | diff")
	replay := fs.String("replay", "", "re-execute the events of this file instead of generating")
	fs.Parse(args)
	w, err := newNDWriter(*out)
	if err != nil {
		return err
	}
	defer w.close()
	sid := 0
	emitEq := func(a, b *sbom.Node, how string) {
		sid++
		pa, pb := proj.Node(a), proj.Node(b)
		ev := map[string]any{"op": "NodeEq", "sid": sid, "how": how, "a": pa, "b": pb, "sep": sepFact(pa, pb), "adj": adjFact(pa, pb)}
		ev["eq"], ev["eqba"], ev["eqaa"], ev["eqbb"] = a.Equal(b), b.Equal(a), a.Equal(a), b.Equal(b)
		ev["csa"], ev["csb"] = a.Checksum(), b.Checksum()
		w.write(ev)
	}
	emitDiff := func(a, b *sbom.Node, how string) {
		sid++
		pa, pb := proj.Node(a), proj.Node(b)
		ev := map[string]any{"op": "Diff", "sid": sid, "how": how, "a": pa, "b": pb, "sep": sepFact(pa, pb)}
		d := a.Diff(b)
		ev["isnil"] = d == nil
		if d != nil {
			ev["count"], ev["added"], ev["removed"] = d.DiffCount, proj.Node(d.Added), proj.Node(d.Removed)
		}
		w.write(ev)
	}
	emit := emitEq
	if *mode == "diff" {
		emit = emitDiff
	}
	if *replay != "" {
		return readND(*replay, func(ev map[string]any) error {
			switch str(ev, "op") {
			case "NodeEq":
				emitEq(proj.ToNode(obj(ev, "a")), proj.ToNode(obj(ev, "b")), str(ev, "how"))
			case "Diff":
				emitDiff(proj.ToNode(obj(ev, "a")), proj.ToNode(obj(ev, "b")), str(ev, "how"))
			case "EdgeEq":
				emitEdgeEq(w, &sid, proj.ToEdge(obj(ev, "a")), proj.ToEdge(obj(ev, "b")), str(ev, "how"))
			case "ListEq":
				emitListEq(w, &sid, proj.ToNodeList(obj(ev, "a")), proj.ToNodeList(obj(ev, "b")), str(ev, "how"))
			}
			return nil
		})
	}
	r := rand.New(rand.NewSource(*seed))
	for i := 0; i < *n; i++ {
		rich := []float64{0.15, 0.4, 0.8}[i%3]
		a := randNode(r, pick(r, []string{"i", "j"}), rich)
		emit(a, cloneNode(a), "identical")
		emit(a, shuffleNode(r, a), "permuted")
		// single-field perturbation at every schema path reachable in a
		var pts []mutPoint
		mutPoints(cloneNode(a).ProtoReflect(), "", &pts)
		for k := range pts {
			b := cloneNode(a)
			var pb []mutPoint
			mutPoints(b.ProtoReflect(), "", &pb)
			pb[k].do()
			emit(a, b, "perturb"+pb[k].path)
			if *mode == "diff" {
				emit(b, a, "perturb-rev"+pb[k].path)
			}
		}
		// the SAME two objects compared, changed in place, compared again (and changed back): an answer must not be
		// remembered across a change of the value
		if len(pts) > 0 {
			b := cloneNode(a)
			emit(a, b, "inplace-before")
			saved := cloneNode(b)
			var pb []mutPoint
			mutPoints(b.ProtoReflect(), "", &pb)
			k := r.Intn(len(pb))
			pb[k].do()
			emit(a, b, "inplace-changed"+pb[k].path)
			proto.Reset(b)
			proto.Merge(b, saved)
			emit(a, b, "inplace-restored")
		}
		// sub-second change of a date: not a difference
		if a.ReleaseDate != nil {
			b := cloneNode(a)
			b.ReleaseDate.Nanos = (b.ReleaseDate.Nanos + 5) % 1000
			emit(a, b, "nanos")
		}
		// an independent node over the same small pools
		b := randNode(r, a.Id, rich)
		emit(a, b, "independent")
		emit(b, a, "independent-rev")
		// a node that shares most fields with a
		c := cloneNode(a)
		fillMsg(r, c.ProtoReflect(), 0.2, 2, map[string]bool{"id": true})
		emit(a, c, "overlay")
		emit(c, a, "overlay-rev")
		if *mode == "eq" && i%4 == 0 {
			x, y, z := a, shuffleNode(r, a), shuffleNode(r, a)
			if i%8 == 0 {
				z = c
			}
			sid++
			w.write(map[string]any{"op": "NodeEq3", "sid": sid, "a": proj.Node(x), "b": proj.Node(y), "c": proj.Node(z),
				"ab": x.Equal(y), "bc": y.Equal(z), "ac": x.Equal(z)})
		}
	}
	// one person OBJECT reachable twice in a contact tree (a value like any other: its projection lists the person twice)
	{
		helpdesk := &sbom.Person{Name: "helpdesk", Email: "help@example.org"}
		legal := &sbom.Person{Name: "legal", Contacts: []*sbom.Person{helpdesk}}
		shared := &sbom.Node{Id: "i", Name: "n", Suppliers: []*sbom.Person{{Name: "org", IsOrg: true, Contacts: []*sbom.Person{legal, helpdesk}}},
			Originators: []*sbom.Person{helpdesk, helpdesk}}
		emit(shared, cloneNode(shared), "shared-contact")
		emit(cloneNode(shared), shared, "shared-contact-rev")
		fewer := cloneNode(shared)
		fewer.Suppliers[0].Contacts = fewer.Suppliers[0].Contacts[:1]
		emit(shared, fewer, "shared-contact-dropped")
	}
	for _, p := range attackPairs() {
		emit(p[0], p[1], "attack")
		emit(p[1], p[0], "attack-rev")
	}
	if *mode == "eq" {
		genEdgeListEq(r, w, &sid, *n)
	}
	return nil
}

func emitEdgeEq(w *ndWriter, sid *int, a, b *sbom.Edge, how string) {
	*sid++
	pa, pb := proj.Edge(a), proj.Edge(b)
	w.write(map[string]any{"op": "EdgeEq", "sid": *sid, "how": how, "a": pa, "b": pb, "sep": sepFact(pa, pb),
		"eq": a.Equal(b), "eqba": b.Equal(a), "eqaa": a.Equal(a), "eqbb": b.Equal(b)})
}

func emitListEq(w *ndWriter, sid *int, a, b *sbom.NodeList, how string) {
	*sid++
	pa, pb := proj.NodeList(a), proj.NodeList(b)
	w.write(map[string]any{"op": "ListEq", "sid": *sid, "how": how, "a": pa, "b": pb, "sep": sepFact(pa, pb),
		"eq": a.Equal(b), "eqba": b.Equal(a), "eqaa": a.Equal(a), "eqbb": b.Equal(b)})
}

func genEdgeListEq(r *rand.Rand, w *ndWriter, sid *int, n int) {
	ids := []string{"a", "b", "c", "a+b", "x:y"}
	randEdge := func() *sbom.Edge {
		e := &sbom.Edge{Type: pick(r, edgeTypes2), From: pick(r, ids)}
		for j, m := 0, r.Intn(4); j < m; j++ {
			e.To = append(e.To, pick(r, ids))
		}
		return e
	}
	for i := 0; i < n; i++ {
		a := randEdge()
		b := proj.ToEdge(proj.Edge(a))
		r.Shuffle(len(b.To), func(x, y int) { b.To[x], b.To[y] = b.To[y], b.To[x] })
		emitEdgeEq(w, sid, a, b, "permuted")
		emitEdgeEq(w, sid, a, randEdge(), "independent")
		c := proj.ToEdge(proj.Edge(a))
		switch r.Intn(3) {
		case 0:
			c.Type++
		case 1:
			c.From += "x"
		case 2:
			c.To = append(c.To, pick(r, ids))
		}
		emitEdgeEq(w, sid, a, c, "perturbed")
	}
	// nothing equals the absent value (and asking does not abort)
	for kind, f := range map[string]func() bool{
		"node":      func() bool { return (&sbom.Node{Id: "a"}).Equal(nil) },
		"node-zero": func() bool { return (&sbom.Node{}).Equal(nil) },
		"edge":      func() bool { return (&sbom.Edge{From: "a", To: []string{"b"}}).Equal(nil) },
		"edge-zero": func() bool { return (&sbom.Edge{}).Equal(nil) },
		"list": func() bool {
			return randList(r, listOpts{ids: idPool(3), rich: 0.3, types: edgeTypes2, maxNodes: 3}).Equal(nil)
		},
		"list-zero": func() bool { return (&sbom.NodeList{}).Equal(nil) },
	} {
		*sid++
		var eq bool
		k, t := guarded(5*time.Second, func() { eq = f() })
		w.write(map[string]any{"op": "NilEq", "sid": *sid, "kind": strings.TrimSuffix(kind, "-zero"), "case": kind, "o": outcome(k, t), "eq": eq})
	}
	// the same number of targets, different multiplicities
	for _, p := range [][2][]string{{{"b", "b"}, {"b", "c"}}, {{"b", "b", "c"}, {"b", "c", "c"}}, {{"b", "c", "b"}, {"c", "b", "c"}}, {{"b", "b"}, {"b"}}} {
		x, y := &sbom.Edge{Type: 5, From: "a", To: p[0]}, &sbom.Edge{Type: 5, From: "a", To: p[1]}
		emitEdgeEq(w, sid, x, y, "multiplicity")
		emitEdgeEq(w, sid, y, x, "multiplicity-rev")
	}
	emitEdgeEq(w, sid, &sbom.Edge{From: "a", To: []string{"b", "c"}}, &sbom.Edge{From: "a", To: []string{"b+c"}}, "attack")
	emitEdgeEq(w, sid, &sbom.Edge{From: "a", Type: 5, To: []string{"b"}}, &sbom.Edge{From: "a:contains:b", Type: 5}, "attack")
	{
		mk := func(t1, t2 []string) *sbom.NodeList {
			nl := &sbom.NodeList{}
			for _, id := range []string{"app", "liba", "libb", "libc", "libz"} {
				nl.Nodes = append(nl.Nodes, &sbom.Node{Id: id})
			}
			nl.Edges = []*sbom.Edge{{Type: 5, From: "app", To: t1}, {Type: 5, From: "app", To: t2}}
			return nl
		}
		emitListEq(w, sid, mk([]string{"liba", "libz"}, []string{"libb", "libc"}), mk([]string{"libz", "liba"}, []string{"libb", "libc"}), "interleaved-targets")
		emitListEq(w, sid, mk([]string{"liba", "libz"}, []string{"libb", "libc"}), mk([]string{"libb", "libc"}, []string{"libz", "liba"}), "interleaved-targets-swapped")
		emitListEq(w, sid, mk([]string{"liba", "libz"}, []string{"libb", "libc"}), mk([]string{"liba", "libb"}, []string{"libz", "libc"}), "interleaved-regrouped")
	}
	// lists beyond any size threshold: equal, and differing in one attribute of a node near the end / in the middle
	for _, size := range []int{150, 257} {
		big := &sbom.NodeList{}
		for k := 0; k < size; k++ {
			big.Nodes = append(big.Nodes, &sbom.Node{Id: fmt.Sprintf("n%d", k), Name: "same", Version: fmt.Sprint(k % 7)})
			if k > 0 {
				big.Edges = append(big.Edges, &sbom.Edge{Type: 5, From: fmt.Sprintf("n%d", k-1), To: []string{fmt.Sprintf("n%d", k)}})
			}
		}
		big.RootElements = []string{"n0"}
		emitListEq(w, sid, big, clone(big), "big-identical")
		emitListEq(w, sid, big, shuffled(r, big), "big-permuted")
		for _, at := range []int{size - 1, size - 3, size / 2, 0} {
			c := clone(big)
			c.Nodes[at].Name = "different"
			emitListEq(w, sid, big, c, fmt.Sprintf("big-differs-at-%d", at))
		}
		c := clone(big)
		c.Edges[len(c.Edges)-1].To = []string{"n0"}
		emitListEq(w, sid, big, c, "big-differs-last-edge")
	}
	o := listOpts{ids: idPool(4), rich: 0.3, types: edgeTypes2, maxNodes: 4}
	for i := 0; i < n; i++ {
		o.ill = i%3 == 0
		a := randList(r, o)
		emitListEq(w, sid, a, clone(a), "identical")
		emitListEq(w, sid, a, shuffled(r, a), "permuted")
		emitListEq(w, sid, a, randList(r, o), "independent")
		// repeated edges / nodes / roots: the same length on both sides, different multiplicities
		if len(a.Edges) >= 2 {
			x, y, z := clone(a), clone(a), clone(a)
			x.Edges = append(x.Edges, x.Edges[0].Copy())
			y.Edges = append(y.Edges, y.Edges[1].Copy())
			emitListEq(w, sid, x, y, "dup-edge-swapped")
			z.Edges[1] = z.Edges[0].Copy()
			emitListEq(w, sid, a, z, "dup-edge-replaces")
			emitListEq(w, sid, z, a, "dup-edge-replaced")
		}
		if len(a.Nodes) >= 2 {
			x, y, z := clone(a), clone(a), clone(a)
			x.Nodes = append(x.Nodes, x.Nodes[0].Copy())
			y.Nodes = append(y.Nodes, y.Nodes[1].Copy())
			emitListEq(w, sid, x, y, "dup-node-swapped")
			z.Nodes[1] = z.Nodes[0].Copy()
			emitListEq(w, sid, a, z, "dup-node-replaces")
		}
		if len(a.RootElements) >= 2 && a.RootElements[0] != a.RootElements[1] {
			z := clone(a)
			z.RootElements[1] = z.RootElements[0]
			emitListEq(w, sid, a, z, "dup-root-replaces")
			emitListEq(w, sid, z, a, "dup-root-replaced")
		}
		// perturb one location of a clone
		b := clone(a)
		var pts []mutPoint
		mutPoints(b.ProtoReflect(), "", &pts)
		if len(pts) > 0 {
			p := pts[r.Intn(len(pts))]
			p.do()
			emitListEq(w, sid, a, b, "perturb"+p.path)
		}
		// the same two list objects: compared, one changed in place, compared again
		c := clone(a)
		emitListEq(w, sid, a, c, "inplace-before")
		var pc []mutPoint
		mutPoints(c.ProtoReflect(), "", &pc)
		if len(pc) > 0 {
			p := pc[r.Intn(len(pc))]
			p.do()
			emitListEq(w, sid, a, c, "inplace-changed"+p.path)
		}
	}
}
