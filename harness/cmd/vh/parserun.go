package main

import (
	"bytes"
	"encoding/json"
	"flag"
	"fmt"
	"io"
	"math/rand"
	"os"
	"path/filepath"
	"regexp"
	"strings"
	"time"

	"github.com/protobom/protobom/pkg/formats"
	"github.com/protobom/protobom/pkg/sbom"
	"verifharness/proj"
)

func init() {
	commands["parse-run"] = parseRun
	commands["sniff-run"] = sniffRun
}

// ---------------------------------------------------------------------------
// JSON layouts of one value

func (n *jnode) reversed() *jnode {
	c := &jnode{kind: n.kind, raw: n.raw}
	for i := len(n.kids) - 1; i >= 0; i-- {
		if n.kind == "object" {
			c.keys = append(c.keys, n.keys[i])
			c.kids = append(c.kids, n.kids[i].reversed())
		}
	}
	if n.kind == "array" { // arrays keep their order: it is part of the value
		for _, k := range n.kids {
			c.kids = append(c.kids, k.reversed())
		}
	}
	return c
}

func escapeAll(s string) string {
	var v string
	json.Unmarshal([]byte(s), &v)
	var b strings.Builder
	b.WriteByte('"')
	for _, r := range v {
		if r > 0xffff {
			r1, r2 := utf16pair(r)
			fmt.Fprintf(&b, "\\u%04x\\u%04x", r1, r2)
		} else {
			fmt.Fprintf(&b, "\\u%04x", r)
		}
	}
	b.WriteByte('"')
	return b.String()
}

func utf16pair(r rune) (rune, rune) {
	r -= 0x10000
	return 0xd800 + (r>>10)&0x3ff, 0xdc00 + r&0x3ff
}

func (n *jnode) renderStyled(b *bytes.Buffer, escape bool, ws string) {
	switch n.kind {
	case "object":
		b.WriteString("{" + ws)
		for i, k := range n.keys {
			if i > 0 {
				b.WriteString("," + ws)
			}
			kb, _ := json.Marshal(k)
			if escape {
				b.WriteString(escapeAll(string(kb)))
			} else {
				b.Write(kb)
			}
			b.WriteString(ws + ":" + ws)
			n.kids[i].renderStyled(b, escape, ws)
		}
		b.WriteString(ws + "}")
	case "array":
		b.WriteString("[" + ws)
		for i, k := range n.kids {
			if i > 0 {
				b.WriteString("," + ws)
			}
			k.renderStyled(b, escape, ws)
		}
		b.WriteString(ws + "]")
	case "string":
		if escape {
			b.WriteString(escapeAll(n.raw))
		} else {
			b.WriteString(n.raw)
		}
	default:
		b.WriteString(n.raw)
	}
}

// layouts renders the same JSON value in five ways.
func layouts(data []byte) map[string][]byte {
	out := map[string][]byte{"compact": data}
	root, err := parseJSON(data)
	if err != nil {
		return out
	}
	var b1, b2, b3, b4 bytes.Buffer
	root.renderStyled(&b1, false, "\n\t ")
	out["whitespace"] = b1.Bytes()
	root.reversed().renderStyled(&b2, false, "")
	out["reversed"] = b2.Bytes()
	root.renderStyled(&b3, true, "")
	out["escaped"] = b3.Bytes()
	var v any
	json.Unmarshal(data, &v)
	ind, _ := json.MarshalIndent(v, "", "    ") // also sorts members alphabetically
	b4.Write(ind)
	out["indented-sorted"] = b4.Bytes()
	// insignificant whitespace around the whole value
	out["padded"] = append(append([]byte("\n  \r\n\t"), data...), []byte("  \n\n")...)
	return out
}

// ---------------------------------------------------------------------------
// abstract inputs

var refPool = []string{"", "a", "b", "c", "", "d e", "ünï"}

func cdxInput(r *rand.Rand, depth int) (comp map[string]any, count int) {
	comp = map[string]any{"type": pick(r, []string{"library", "application", "file", "container"}), "name": pick(r, []string{"n1", "n2", "n3"})}
	if ref := pick(r, refPool); ref != "" {
		comp["bom-ref"] = ref
	}
	if r.Intn(3) == 0 {
		comp["version"] = "1.0"
	}
	// optional members of every kind the parser maps: they take part in determinism and layout independence
	if r.Intn(3) == 0 {
		lics := []any{}
		for i, n := 0, 1+r.Intn(3); i < n; i++ {
			switch r.Intn(3) {
			case 0:
				lics = append(lics, map[string]any{"license": map[string]any{"id": pick(r, []string{"MIT", "Apache-2.0"})}})
			case 1:
				lics = append(lics, map[string]any{"license": map[string]any{"name": "Custom licence \"Q\""}})
			default:
				lics = append(lics, map[string]any{"expression": "MIT OR (Apache-2.0 AND BSD-3-Clause)"})
			}
		}
		comp["licenses"] = lics
	}
	if r.Intn(3) == 0 {
		comp["hashes"] = []any{map[string]any{"alg": pick(r, []string{"SHA-1", "SHA-256", "BLAKE3"}), "content": "00ff"},
			map[string]any{"alg": "MD5", "content": "aa"}}
	}
	if r.Intn(3) == 0 {
		comp["purl"] = "pkg:npm/%40scope/name@1.0?arch=x#sub"
	}
	if r.Intn(4) == 0 {
		comp["cpe"] = "cpe:2.3:a:v:p:1:*:*:*:*:*:*:*"
	}
	if r.Intn(4) == 0 {
		comp["description"], comp["copyright"] = "d\u00e9scription\twith tab", "(c) 2024 <someone>"
	}
	if r.Intn(4) == 0 {
		comp["externalReferences"] = []any{
			map[string]any{"type": pick(r, []string{"vcs", "website", "other", "distribution"}), "url": "https://example.com/?a=1&b=2", "comment": "c"},
			map[string]any{"type": "build-meta", "url": "https://ci.example.com", "hashes": []any{map[string]any{"alg": "SHA-256", "content": "11"}}}}
	}
	if r.Intn(5) == 0 {
		comp["supplier"] = map[string]any{"name": "ACME", "url": []any{"https://acme.example"}, "contact": []any{map[string]any{"name": "J", "email": "j@acme.example"}}}
	}
	count = 1
	if depth > 0 && r.Intn(2) == 0 {
		kids := []any{}
		for i, n := 0, 1+r.Intn(2); i < n; i++ {
			k, c := cdxInput(r, depth-1)
			kids = append(kids, k)
			count += c
		}
		comp["components"] = kids
	}
	return comp, count
}

var safeIDRe = regexp.MustCompile(`^[a-zA-Z0-9.-]+$`)

// parseObserve parses data in every layout, twice with auto-detection and once with the format stated.
func parseObserve(data []byte, f formats.Format) []any {
	res := []any{}
	ls := layouts(data)
	for _, name := range []string{"compact", "whitespace", "reversed", "escaped", "indented-sorted", "padded"} {
		b, ok := ls[name]
		if !ok {
			continue
		}
		for _, mode := range []string{"auto", "auto", "explicit", "auto-after-reject"} {
			ff := formats.Format("")
			if mode == "explicit" {
				ff = f
			}
			if mode == "auto-after-reject" {
				if name != "compact" {
					continue
				}
				// documents that decode far and are then rejected (a type error late in the document)
				readDoc([]byte(`{"bomFormat":"CycloneDX","specVersion":"1.5","serialNumber":"urn:uuid:00000000-0000-0000-0000-00000000dead","metadata":{"component":{"bom-ref":"stale-root","type":"application","name":"stale","components":[{"bom-ref":"stale-child","type":"library","name":"stale"}]}},"components":[{"bom-ref":"stale-top","type":"library","name":"stale"}],"version":"not a number"}`), "")
				readDoc([]byte(`{"spdxVersion":"SPDX-2.3","SPDXID":"SPDXRef-DOCUMENT","name":"stale","documentNamespace":"https://stale","packages":[{"SPDXID":"SPDXRef-stale","name":"stale","downloadLocation":"NOASSERTION"}],"relationships":[{"spdxElementId":"SPDXRef-DOCUMENT","relationshipType":"DESCRIBES","relatedSpdxElement":"SPDXRef-stale"}],"files":"not an array"}`), "")
			}
			doc, k, t := readDoc(b, ff)
			r := map[string]any{"layout": name, "mode": mode, "o": outcome(k, t), "doc": proj.Doc(doc), "auto": []any{}, "autosafe": true}
			if doc != nil && doc.NodeList != nil {
				auto := []any{}
				for _, n := range doc.NodeList.Nodes {
					if strings.HasPrefix(n.Id, "protobom-") {
						auto = append(auto, n.Id)
						if !safeIDRe.MatchString(n.Id) {
							r["autosafe"] = false
						}
					}
				}
				r["auto"] = auto
			}
			res = append(res, r)
		}
	}
	return res
}

func parseRun(args []string) error {
	fs := flag.NewFlagSet("parse-run", flag.ExitOnError)
	out := fs.String("out", "", "trace file")
	seed := fs.Int64("seed", 1, "seed")
	n := fs.Int("n", 50, "inputs")
	replay := fs.String("replay", "", "replay file")
	child := fs.Bool("child", false, "internal")
	fs.IntVar(&skipCases, "skip", 0, "internal")
	fs.Parse(args)
	if !*child {
		var pass []string
		for i := 0; i < len(args); i++ {
			if args[i] == "--out" {
				i++
				continue
			}
			pass = append(pass, args[i])
		}
		return isolate("parse-run", pass, *out)
	}
	capChildMemory()
	w, err := newNDWriter(*out)
	if err != nil {
		return err
	}
	defer w.close()
	sid := 0
	emit := func(kind string, fname string, input map[string]any, facts map[string]any) {
		sid++
		data, _ := json.Marshal(input)
		ev := map[string]any{"op": "PARSE", "sid": sid, "kind": kind, "fmt": fname, "input": string(data), "results": []any{}}
		for k, v := range facts {
			ev[k] = v
		}
		if sid <= skipCases {
			return
		}
		ev["op"] = "PARSE-begin"
		w.write(ev)
		w.flush()
		ev["op"] = "PARSE"
		ev["results"] = parseObserve(data, trFormats[fname])
		w.write(ev)
		w.flush()
		exitIfLeaked(w)
	}
	if *replay != "" {
		return readND(*replay, func(ev map[string]any) error {
			var input map[string]any
			json.Unmarshal([]byte(str(ev, "input")), &input)
			facts := map[string]any{}
			for _, k := range []string{"resolves", "inputkeys", "inputunique", "ncomps", "special", "docrel"} {
				if v, ok := ev[k]; ok {
					facts[k] = v
				}
			}
			emit(str(ev, "kind"), str(ev, "fmt"), input, facts)
			return nil
		})
	}
	r := rand.New(rand.NewSource(*seed))
	for i := 0; i < *n; i++ {
		// ---- CycloneDX component forests with missing / duplicate refs, nesting, optional metadata component
		ver := pick(r, []string{"cdx13", "cdx14", "cdx15"})
		bom := map[string]any{"bomFormat": "CycloneDX", "specVersion": "1." + ver[4:], "version": 1,
			"serialNumber": pick(r, []string{"urn:uuid:3e671687-395b-41f5-a30f-a58921a69b79", "urn:uuid:3e671687-395b-41f5-a30f-a58921a69b79", "specVersion", "bomFormat", "spdxVersion"})}
		total := 0
		if r.Intn(4) > 0 {
			mc, c := cdxInput(r, 1+r.Intn(3))
			bom["metadata"] = map[string]any{"component": mc}
			total += c
		}
		comps := []any{}
		for j, m := 0, r.Intn(4); j < m; j++ {
			c, cnt := cdxInput(r, 3)
			comps = append(comps, c)
			total += cnt
		}
		bom["components"] = comps
		// facts about the input, computed from the abstract input only
		refs := map[string]bool{}
		anon := 0
		var walk func(c map[string]any)
		walk = func(c map[string]any) {
			if ref, _ := c["bom-ref"].(string); ref != "" {
				refs[ref] = true
			} else {
				anon++
			}
			kids, _ := c["components"].([]any)
			for _, k := range kids {
				walk(k.(map[string]any))
			}
		}
		if md, ok := bom["metadata"].(map[string]any); ok {
			walk(md["component"].(map[string]any))
		}
		for _, c := range comps {
			walk(c.(map[string]any))
		}
		emit("cdx", ver, bom, map[string]any{"resolves": true, "inputkeys": len(refs) + anon, "inputunique": len(refs)+anon == total, "ncomps": total})
		if i%10 == 0 {
			// a repeated reference inside the main component's subtree, reference-less components there and at the top
			// level: every reference-less component still gets its own generated identifier
			lib := func(name string, ref string, kids ...any) map[string]any {
				c := map[string]any{"type": "library", "name": name}
				if ref != "" {
					c["bom-ref"] = ref
				}
				if len(kids) > 0 {
					c["components"] = kids
				}
				return c
			}
			t := map[string]any{"bomFormat": "CycloneDX", "specVersion": "1." + ver[4:], "version": 1,
				"metadata":   map[string]any{"component": lib("main", "dup", lib("twin", "dup"), lib("x", "x"), lib("anon-in-main", ""))},
				"components": []any{lib("anon-top-1", ""), lib("y", "y", lib("anon-deep", "")), lib("anon-top-2", "")}}
			emit("cdx", ver, t, map[string]any{"resolves": true, "inputkeys": 7, "inputunique": false, "ncomps": 8})
		}

		// ---- SPDX documents: elements, relationships to present / missing / special targets
		ids := []string{"a", "b", "c"}[:1+r.Intn(3)]
		doc := map[string]any{"spdxVersion": "SPDX-2.3", "dataLicense": "CC0-1.0", "SPDXID": "SPDXRef-DOCUMENT",
			// a top-level VALUE that is spelled like a declaration member
			"name":              pick(r, []string{"n", "n", "spdxVersion", "specVersion", "bomFormat", "SPDXID"}),
			"documentNamespace": "https://example.com/ns", "creationInfo": map[string]any{"created": "2024-01-01T00:00:00Z", "creators": []any{"Tool: t"}}}
		pk, fl, rel := []any{}, []any{}, []any{}
		for _, id := range ids {
			if r.Intn(3) == 0 {
				fl = append(fl, map[string]any{"SPDXID": "SPDXRef-" + id, "fileName": "f-" + id, "checksums": []any{map[string]any{"algorithm": "SHA1", "checksumValue": "aa"}}})
			} else {
				pk = append(pk, map[string]any{"SPDXID": "SPDXRef-" + id, "name": "p-" + id, "downloadLocation": "NOASSERTION"})
			}
		}
		resolves, special, docrel := true, false, false
		for j, m := 0, r.Intn(5); j < m; j++ {
			from := "SPDXRef-" + pick(r, ids)
			to := "SPDXRef-" + pick(r, ids)
			typ := pick(r, []string{"CONTAINS", "DEPENDS_ON", "DESCRIBES", "OTHER"})
			switch r.Intn(12) {
			case 0:
				to = "SPDXRef-missing"
				resolves = false
			case 1:
				to = pick(r, []string{"NOASSERTION", "NONE"})
				special = true
			case 2:
				to = "SPDXRef-DOCUMENT"
				docrel = true
			case 3:
				from, typ = "SPDXRef-DOCUMENT", "DESCRIBES"
			case 4:
				// the document describes "nothing": no root element may come out of it
				from, typ, to = "SPDXRef-DOCUMENT", "DESCRIBES", pick(r, []string{"NOASSERTION", "NONE"})
				special = true
			case 5:
				from, to = pick(r, []string{"NOASSERTION", "NONE"}), "SPDXRef-"+pick(r, ids)
				special = true
			}
			rel = append(rel, map[string]any{"spdxElementId": from, "relationshipType": typ, "relatedSpdxElement": to})
		}
		if len(pk) > 0 {
			doc["packages"] = pk
		}
		if len(fl) > 0 {
			doc["files"] = fl
		}
		doc["relationships"] = rel
		if r.Intn(8) == 0 {
			doc["documentDescribes"] = []any{pick(r, []string{"NOASSERTION", "NONE", "SPDXRef-" + ids[0]})}
			special = true
		}
		emit("spdx", "spdx23", doc, map[string]any{"resolves": resolves, "inputkeys": len(ids), "inputunique": true, "ncomps": len(ids), "special": special, "docrel": docrel})
	}
	// the public identifier generator
	seeds := [][]string{{}, {"auto"}, {"auto", "000000001"}, {"node", "x"}, {"a/b:c d"}, {"ünï✓"}, {""}, {"", ""}, {"auto", ""}, {"...---"}, {"x", "y", "z"}, {"auto", "auto"}, {"node"}, {"\x00\n"}, {strings.Repeat("long", 100)},
		// separators next to each other (the replacements must not depend on the order they are tried in)
		{"https://example.com/a b"}, {"a://b"}, {"a:/b"}, {"pkg:npm/@scope/name@1.0"}, {"C:\\dir\\file"}, {"a  b"}, {"x::y"}, {"//"}, {"a/:b /c"},
		{"node", "https://example.com/x"}, {"auto", "git+ssh://host/repo.git"}}
	// every printable ASCII character on its own and inside a word, and a few multi-byte runes
	for c := 0x20; c < 0x7f; c++ {
		seeds = append(seeds, []string{string(rune(c))}, []string{"node", "a" + string(rune(c)) + "b"})
	}
	for _, rn := range []rune{0xe9, 0x3b1, 0x65e5, 0x1f680, 0x2028} {
		seeds = append(seeds, []string{"x" + string(rn)})
	}
	// every rune of the basic multilingual plane, alone and inside a word: one summary event
	{
		bad := []any{}
		checked := 0
		for c := rune(0); c <= 0x2ffff; c++ {
			if c >= 0xd800 && c <= 0xdfff {
				continue
			}
			if c > 0xffff && c%17 != 0 {
				continue
			}
			checked++
			id1 := sbom.NewNodeIdentifier("node", "a"+string(c)+"b")
			id2 := sbom.NewNodeIdentifier("node", "a"+string(c)+"b")
			if (!safeIDRe.MatchString(id1) || id1 != id2) && len(bad) < 20 {
				bad = append(bad, fmt.Sprintf("U+%04X", c))
			}
		}
		sid++
		w.write(map[string]any{"op": "IDGENSWEEP", "sid": sid, "checked": checked, "bad": bad})
	}
	for _, s := range seeds {
		sid++
		ev := map[string]any{"op": "IDGEN", "sid": sid, "seeds": s}
		var a, b string
		k, t := guarded(5*time.Second, func() {
			a = sbom.NewNodeIdentifier(s...)
			b = a
			for i := 0; i < 16 && b == a; i++ { // reproducible: the first differing repetition is logged
				b = sbom.NewNodeIdentifier(s...)
			}
		})
		usable := false
		for _, x := range s {
			if x != "auto" && x != "node" && x != "" {
				usable = true
			}
		}
		ev["o"], ev["id1"], ev["id2"] = outcome(k, t), a, b
		ev["safe"], ev["nonempty"], ev["usable"] = safeIDRe.MatchString(a) && safeIDRe.MatchString(b), a != "" && b != "", usable
		w.write(ev)
	}
	return nil
}

// ---------------------------------------------------------------------------
// format detection (C06)

func sniffObserve(data []byte) map[string]any {
	ev := map[string]any{}
	rd := bytes.NewReader(data)
	var f formats.Format
	var err error
	k, t := guarded(20*time.Second, func() {
		s := formats.Sniffer{}
		f, err = s.SniffReader(rd)
	})
	ev["o"] = outcome(k, t)
	ev["res"] = string(f)
	ev["err"] = err != nil
	pos, _ := rd.Seek(0, io.SeekCurrent)
	ev["pos"] = int(pos)
	ev["atype"], ev["aversion"], ev["aenc"] = f.Type(), f.Version(), f.Encoding()
	ev["amajor"], ev["aminor"], ev["auri"] = f.Major(), f.Minor(), f.URI()
	// parsing from the same stream after detection must see the whole document: same outcome as a fresh parse
	if k == "ok" && err == nil {
		rest, _ := io.ReadAll(rd)
		ev["restlen"] = len(rest)
	} else {
		ev["restlen"] = -1
	}
	// the declaration, decoded independently
	var top map[string]any
	decl := map[string]any{"object": false}
	if json.Unmarshal(data, &top) == nil && top != nil {
		decl["object"] = true
		for _, key := range []string{"bomFormat", "specVersion", "spdxVersion"} {
			v, ok := top[key]
			switch x := v.(type) {
			case string:
				decl[key] = map[string]any{"t": "string", "v": x}
			case nil:
				if ok {
					decl[key] = map[string]any{"t": "null", "v": ""}
				} else {
					decl[key] = map[string]any{"t": "absent", "v": ""}
				}
			default:
				decl[key] = map[string]any{"t": "other", "v": ""}
			}
		}
		bf, _ := top["bomFormat"].(string)
		decl["bf_fold"] = strings.EqualFold(bf, "cyclonedx")
	} else {
		// tag-value: the value of the first SPDXVersion tag
		decl["tv"] = ""
		for _, line := range strings.Split(string(data), "\n") {
			if strings.HasPrefix(strings.TrimSpace(line), "SPDXVersion:") {
				decl["tv"] = strings.TrimSpace(strings.TrimPrefix(strings.TrimSpace(line), "SPDXVersion:"))
				break
			}
		}
	}
	ev["decl"] = decl
	ev["len"] = len(data)
	return ev
}

func sniffRun(args []string) error {
	fs := flag.NewFlagSet("sniff-run", flag.ExitOnError)
	out := fs.String("out", "", "trace file")
	seed := fs.Int64("seed", 1, "seed")
	n := fs.Int("n", 30, "documents")
	replay := fs.String("replay", "", "replay file")
	fs.Parse(args)
	w, err := newNDWriter(*out)
	if err != nil {
		return err
	}
	defer w.close()
	sid := 0
	emit := func(src, want string, data []byte) {
		sid++
		ev := sniffObserve(data)
		ev["op"], ev["sid"], ev["src"], ev["want"] = "SNIFF", sid, src, want
		if len(data) <= 2000 {
			ev["hex"] = fmt.Sprintf("%x", data)
		}
		w.write(ev)
	}
	if *replay != "" {
		return readND(*replay, func(ev map[string]any) error {
			var data []byte
			fmt.Sscanf(str(ev, "hex"), "%x", &data)
			emit(str(ev, "src"), str(ev, "want"), data)
			return nil
		})
	}
	r := rand.New(rand.NewSource(*seed))
	want := map[string]string{"spdx23": string(formats.SPDX23JSON), "cdx13": string(formats.CDX13JSON), "cdx14": string(formats.CDX14JSON), "cdx15": string(formats.CDX15JSON)}
	for i := 0; i < *n; i++ {
		doc := genCDXDoc(r, i, true)
		if i%2 == 0 {
			doc = genSPDXDoc(r, i)
			if len(doc.NodeList.RootElements) != 1 {
				doc.NodeList.RootElements = []string{doc.NodeList.Nodes[0].Id}
			}
		}
		for _, f := range []string{"spdx23", "cdx13", "cdx14", "cdx15"} {
			data, k, _ := writeDoc(doc, trFormats[f], []int{0, 1, 4, 8}[i%4])
			if k != "ok" {
				continue
			}
			for name, b := range layouts(data) {
				emit("writer:"+f+":"+name, want[f], b)
			}
		}
	}
	// one large document (several MiB at the wider indentations): detection does not depend on the size
	if *seed%100 == 0 {
		big := newDoc(r)
		for i := 0; i < 12000; i++ {
			big.NodeList.Nodes = append(big.NodeList.Nodes, &sbom.Node{Id: fmt.Sprintf("pkg-%d", i), Name: fmt.Sprintf("package number %d", i), Version: "1.0.0",
				Hashes: map[int32]string{3: "0123456789abcdef0123456789abcdef0123456789abcdef0123456789abcdef"}})
		}
		big.NodeList.RootElements = []string{"pkg-0"}
		for _, f := range []string{"spdx23", "cdx15"} {
			for _, ind := range []int{0, 4, 8} {
				if data, k, _ := writeDoc(big, trFormats[f], ind); k == "ok" {
					emit(fmt.Sprintf("writer-large:%s:indent%d:%dB", f, ind, len(data)), want[f], data)
					if ind == 0 {
						// the same value with its members in another order: the declaration then comes after megabytes of packages / components
						ls := layouts(data)
						for _, name := range []string{"reversed", "indented-sorted"} {
							if b, ok := ls[name]; ok {
								emit(fmt.Sprintf("writer-large:%s:%s:%dB", f, name, len(b)), want[f], b)
							}
						}
					}
				}
			}
		}
	}
	// detection by path: the same path rewritten in another format (same length, same second) is detected afresh
	if dir, err := os.MkdirTemp("", "vh-sniff-"); err == nil {
		path := filepath.Join(dir, "sbom.json")
		doc := genCDXDoc(r, 1, true)
		for round := 0; round < 2; round++ {
			for _, f := range []string{"cdx14", "cdx15", "cdx13", "cdx15"} {
				data, k, _ := writeDoc(doc, trFormats[f], 2)
				if k != "ok" || os.WriteFile(path, data, 0o644) != nil {
					continue
				}
				sid++
				ev := sniffObserve(data) // facts about the bytes (declaration etc.); the observed result comes from SniffFile
				var got formats.Format
				var ferr error
				k2, t2 := guarded(20*time.Second, func() { s := formats.Sniffer{}; got, ferr = s.SniffFile(path) })
				ev["o"], ev["res"], ev["err"] = outcome(k2, t2), string(got), ferr != nil
				ev["atype"], ev["aversion"], ev["aenc"] = got.Type(), got.Version(), got.Encoding()
				ev["pos"], ev["restlen"] = 0, -1
				ev["op"], ev["sid"], ev["src"], ev["want"] = "SNIFF", sid, "file-rewritten:"+f, want[f]
				w.write(ev)
			}
		}
		os.RemoveAll(dir)
	}
	// a stream the caller has already read from (a magic-number peek, a read to the end): detection still looks at the
	// whole document and leaves the stream at its start
	for _, f := range []string{"spdx23", "cdx14", "cdx15", "cdx13"} {
		data, k, _ := writeDoc(tinyDoc(), trFormats[f], 2)
		if k != "ok" {
			continue
		}
		for _, adv := range []int{1, 16, len(data) / 2, len(data)} {
			ev := sniffObserve(data)
			rd := bytes.NewReader(data)
			io.CopyN(io.Discard, rd, int64(adv))
			var got formats.Format
			var ferr error
			k2, t2 := guarded(20*time.Second, func() { s := formats.Sniffer{}; got, ferr = s.SniffReader(rd) })
			pos, _ := rd.Seek(0, io.SeekCurrent)
			rest, _ := io.ReadAll(rd)
			sid++
			ev["o"], ev["res"], ev["err"] = outcome(k2, t2), string(got), ferr != nil
			ev["atype"], ev["aversion"], ev["aenc"] = got.Type(), got.Version(), got.Encoding()
			ev["amajor"], ev["aminor"], ev["auri"] = got.Major(), got.Minor(), got.URI()
			ev["pos"], ev["restlen"] = int(pos), len(rest)
			// what such a stream is detected as is not decided by the property (the code reads from where the stream stands);
			// where the stream is left afterwards is: at its start
			ev["op"], ev["sid"], ev["src"], ev["want"], ev["preread"] = "SNIFF", sid, fmt.Sprintf("pre-read:%s:%d", f, adv), "", adv
			w.write(ev)
		}
	}
	// a byte-order mark in front of the document: whatever is detected, the stream is left at its very start
	for _, f := range []string{"spdx23", "cdx15"} {
		data, k, _ := writeDoc(tinyDoc(), trFormats[f], 2)
		if k != "ok" {
			continue
		}
		for _, prefix := range []string{"\xef\xbb\xbf", "\xef\xbb", "\xfe\xff", " \xef\xbb\xbf"} {
			ev := sniffObserve(append([]byte(prefix), data...))
			sid++
			ev["op"], ev["sid"], ev["src"], ev["want"], ev["preread"] = "SNIFF", sid, fmt.Sprintf("bom-prefix:%s:%x", f, prefix), "", 0
			w.write(ev)
		}
	}
	// paths that are not readable files: missing, a directory, a dangling symbolic link
	if dir, err := os.MkdirTemp("", "vh-sniffpath-"); err == nil {
		os.Symlink(filepath.Join(dir, "nowhere"), filepath.Join(dir, "dangling"))
		for name, path := range map[string]string{"missing": filepath.Join(dir, "missing.json"), "directory": dir, "dangling-link": filepath.Join(dir, "dangling"), "empty-path": ""} {
			var got formats.Format
			var ferr error
			k, t := guarded(20*time.Second, func() { s := formats.Sniffer{}; got, ferr = s.SniffFile(path) })
			sid++
			w.write(map[string]any{"op": "SNIFFPATH", "sid": sid, "case": name, "o": outcome(k, t), "res": string(got), "err": ferr != nil})
		}
		os.RemoveAll(dir)
	}
	// near-miss declarations
	vals := func(vs ...any) []any { return vs }
	bfs := vals(nil, "CycloneDX", "cyclonedx", "CYCLONEDX", "CycloneDX ", "Cyclone", "SPDX", 5, true, "absent")
	svs := vals("1.3", "1.4", "1.5", "1.2", "1.6", "1.40", " 1.4", "1.4.0", 1.4, nil, "absent", "SPDX-2.3", "2.3")
	spv := vals("SPDX-2.2", "SPDX-2.3", "SPDX-2.1", "SPDX-2.30", "spdx-2.3", "2.3", "SPDX-3.0", 2.3, nil, "absent", "1.4", "1.5")
	for _, bf := range bfs {
		for _, sv := range svs {
			for _, sp := range spv {
				if r.Intn(3) != 0 && !(bf == "absent" || sp == "absent") {
					continue
				}
				m := map[string]any{"name": "x"}
				for k, v := range map[string]any{"bomFormat": bf, "specVersion": sv, "spdxVersion": sp} {
					if v != "absent" {
						m[k] = v
					}
				}
				data, _ := json.Marshal(m)
				emit("declaration", "", data)
			}
		}
	}
	// non-JSON text
	for _, txt := range []string{"SPDXVersion: SPDX-2.3\nDataLicense: CC0-1.0\n", "SPDXVersion: SPDX-2.2\n", "SPDXVersion: SPDX-2.30\n", "SPDXVersion: SPDX-2.21\n",
		"SPDXVersion:SPDX-2.3\n", "  SPDXVersion: SPDX-2.3  \n", "DataLicense: CC0-1.0\nSPDXVersion: SPDX-2.3\n", "SPDXVersion: SPDX-3.0\n", "SPDXVersion: foo\n\"SPDX-2.3\"\n",
		"# SPDXVersion: SPDX-2.3 is mentioned in a comment\n", "", "\n\n", "<bom xmlns=\"http://cyclonedx.org/schema/bom/1.4\"></bom>", "[1,2,3]", "\"SPDX-2.3\"", "null", "{", "{}"} {
		emit("text", "", []byte(txt))
	}
	// very long lines: the tag and its value far into a line, around typical buffer sizes
	for _, pad := range []int{4075, 4076, 4090, 4095, 4096, 8191, 65535, 70000} {
		for _, val := range []string{"SPDX-2.3", "SPDX-2.30", "SPDX-2.3-draft", "SPDX-2.2"} {
			emit("text-long-line", "", []byte(strings.Repeat(" ", pad)+"SPDXVersion: "+val+"\nDataLicense: CC0-1.0\n"))
		}
	}
	for i := 0; i < 40; i++ {
		b := make([]byte, r.Intn(300))
		r.Read(b)
		emit("random", "", b)
	}
	return nil
}
