package main

import (
	"bytes"
	"errors"
	"flag"
	"fmt"
	"io"
	"strings"
	"time"

	"github.com/protobom/protobom/pkg/formats"
	"github.com/protobom/protobom/pkg/native"
	"github.com/protobom/protobom/pkg/reader"
	"github.com/protobom/protobom/pkg/sbom"
	"github.com/protobom/protobom/pkg/writer"
)

// pipe-run replays behaviours of spec/Pipeline.tla (registry changes, parse and write calls) on the real reader and
// writer.  Drivers "fake1"/"fake2" answer with a document / output naming themselves, "failing" returns an error,
// "builtin" is the driver the package registered itself.  Every call is logged with the observed result
// [kind, stage, driver]; the stage of an error is read off the wrapping the pipeline adds at each step.

func init() { commands["pipe-run"] = pipeRun }

type tagDriver struct {
	tag  string
	fail bool
}

func (d *tagDriver) Unserialize(_ io.Reader, _ *native.UnserializeOptions, _ interface{}) (*sbom.Document, error) {
	if d.fail {
		return nil, errors.New("verif: failing driver")
	}
	doc := tinyDoc()
	doc.Metadata.Name = "driver:" + d.tag
	return doc, nil
}

func (d *tagDriver) Serialize(_ *sbom.Document, _ *native.SerializeOptions, _ interface{}) (interface{}, error) {
	if d.fail {
		return nil, errors.New("verif: failing driver")
	}
	return d.tag, nil
}

func (d *tagDriver) Render(x interface{}, w io.Writer, _ *native.RenderOptions, _ interface{}) error {
	_, err := fmt.Fprintf(w, "{\"driver\":%q}", x)
	return err
}

var pipeFormats = map[string]formats.Format{"spdx23": formats.SPDX23JSON, "cdx14": formats.CDX14JSON, "cdx15": formats.CDX15JSON, "rec": recFormat}

func parseStage(err error) string {
	s := err.Error()
	switch {
	case strings.HasPrefix(s, "options cannot be nil"):
		return "options"
	case strings.HasPrefix(s, "detecting SBOM format"):
		return "detect"
	case strings.HasPrefix(s, "getting format parser"):
		return "lookup"
	case strings.HasPrefix(s, "unserializing"):
		return "parse"
	}
	return "other:" + s
}

func writeStage(err error) string {
	s := err.Error()
	switch {
	case strings.Contains(s, "SBOM is nil"):
		return "nil-doc"
	case strings.HasPrefix(s, "getting serializer"):
		return "lookup"
	case strings.HasPrefix(s, "serializing SBOM to native format"):
		return "serialize"
	case strings.HasPrefix(s, "writing rendered document"):
		return "render"
	}
	return "other:" + s
}

func pipeRun(args []string) error {
	fs := flag.NewFlagSet("pipe-run", flag.ExitOnError)
	out := fs.String("out", "", "trace file")
	scripts := fs.String("scripts", "", "behaviours exported by TLC from Pipeline.tla")
	fs.Int64("seed", 1, "unused (the scripts are the specification's)")
	fs.Parse(args)
	w, err := newNDWriter(*out)
	if err != nil {
		return err
	}
	defer w.close()

	// the package's own drivers, and inputs written by them before anything is changed
	builtinR, builtinW := map[string]native.Unserializer{}, map[string]native.Serializer{}
	inputs := map[string][]byte{}
	for name, f := range pipeFormats {
		if name == "rec" {
			continue
		}
		u, err := reader.GetFormatUnserializer(f)
		if err != nil {
			return err
		}
		s, err := writer.GetFormatSerializer(f)
		if err != nil {
			return err
		}
		builtinR[name], builtinW[name] = u, s
		data, kind, text := writeDoc(tinyDoc(), f, 2)
		if kind != "ok" {
			return fmt.Errorf("cannot produce the %s input: %s", name, text)
		}
		inputs[name+"/good"] = data
	}
	inputs["spdx23/bad"] = []byte(`{"spdxVersion":"SPDX-2.3","SPDXID":"SPDXRef-DOCUMENT","packages":"not-a-list"}`)
	inputs["cdx14/bad"] = []byte(`{"bomFormat":"CycloneDX","specVersion":"1.4","components":"not-a-list"}`)
	inputs["cdx15/bad"] = []byte(`{"bomFormat":"CycloneDX","specVersion":"1.5","components":"not-a-list"}`)
	inputs["none/good"] = []byte(`{"hello":"world"}`)
	inputs["none/bad"] = []byte(`{"hello":`)
	reset := func() {
		for name, f := range pipeFormats {
			if name == "rec" {
				reader.UnregisterUnserializer(f)
				writer.UnregisterSerializer(f)
				continue
			}
			reader.RegisterUnserializer(f, builtinR[name])
			writer.RegisterSerializer(f, builtinW[name])
		}
	}
	defer reset()
	driver := func(name, f string) *tagDriver { return &tagDriver{tag: name, fail: name == "failing"} }
	var wr *writer.Writer
	sid := 0
	return readND(*scripts, func(ev map[string]any) error {
		f := pipeFormats[str(ev, "f")]
		switch str(ev, "op") {
		case "End":
			return nil
		case "Reset":
			sid++
			reset()
			wr = writer.New()
		case "RegisterR":
			if d := str(ev, "d"); d == "builtin" {
				if builtinR[str(ev, "f")] == nil { // no built-in driver for the private format: the step is not executable
					ev["skipped"] = true
				} else {
					reader.RegisterUnserializer(f, builtinR[str(ev, "f")])
				}
			} else {
				reader.RegisterUnserializer(f, driver(d, str(ev, "f")))
			}
		case "UnregisterR":
			reader.UnregisterUnserializer(f)
		case "RegisterW":
			if d := str(ev, "d"); d == "builtin" {
				if builtinW[str(ev, "f")] == nil {
					ev["skipped"] = true
				} else {
					writer.RegisterSerializer(f, builtinW[str(ev, "f")])
				}
			} else {
				writer.RegisterSerializer(f, driver(d, str(ev, "f")))
			}
		case "UnregisterW":
			writer.UnregisterSerializer(f)
		case "NewWriter":
			if str(ev, "f") == "" {
				wr = writer.New()
			} else {
				wr = writer.New(writer.WithFormat(f))
			}
		case "Parse":
			data := inputs[str(ev, "decl")+"/"+str(ev, "body")]
			var o *reader.Options
			switch opt := str(ev, "opt"); opt {
			case "nil":
			case "":
				o = &reader.Options{UnserializeOptions: &native.UnserializeOptions{}}
			default:
				o = &reader.Options{UnserializeOptions: &native.UnserializeOptions{}, Format: pipeFormats[opt]}
			}
			var doc *sbom.Document
			var err error
			kind, text := guarded(20*time.Second, func() { doc, err = reader.New().ParseStreamWithOptions(bytes.NewReader(data), o) })
			res := map[string]any{"kind": "ok", "stage": "", "driver": ""}
			switch {
			case kind != "ok":
				res["kind"], res["stage"] = kind, text
			case err != nil && doc != nil:
				res["kind"] = "both"
			case err != nil:
				res["kind"], res["stage"] = "err", parseStage(err)
			case doc == nil:
				res["kind"] = "neither"
			case doc.Metadata != nil && strings.HasPrefix(doc.Metadata.Name, "driver:"):
				res["driver"] = strings.TrimPrefix(doc.Metadata.Name, "driver:")
			default:
				// a built-in driver answered: it understood the input iff the one node of the input document is there
				res["driver"] = "builtin-empty"
				if doc.NodeList != nil && len(doc.NodeList.Nodes) == 1 && doc.NodeList.Nodes[0].Name == "root" {
					res["driver"] = "builtin-understood"
				}
			}
			ev["res"] = res
		case "Write":
			var doc *sbom.Document
			if str(ev, "doc") == "good" {
				doc = tinyDoc()
			}
			var o *writer.Options
			switch opt := str(ev, "opt"); opt {
			case "nil":
			case "":
				o = &writer.Options{}
			default:
				o = &writer.Options{Format: pipeFormats[opt]}
			}
			var buf bytes.Buffer
			var err error
			kind, text := guarded(20*time.Second, func() { err = wr.WriteStreamWithOptions(doc, nopCloser{&buf}, o) })
			res := map[string]any{"kind": "ok", "stage": "", "driver": ""}
			switch {
			case kind != "ok":
				res["kind"], res["stage"] = kind, text
			case err != nil:
				res["kind"], res["stage"] = "err", writeStage(err)
			case strings.HasPrefix(buf.String(), `{"driver":`):
				res["driver"] = strings.Trim(strings.TrimPrefix(buf.String(), `{"driver":`), `"}`)
			default:
				got, _ := sniffOutput(buf.Bytes())
				res["driver"] = "builtin-" + got
			}
			ev["res"] = res
		}
		ev["sid"] = sid
		w.write(ev)
		return nil
	})
}
