package main

import (
	"bytes"

	"github.com/protobom/protobom/pkg/formats"
	"github.com/protobom/protobom/pkg/sbom"
	"github.com/protobom/protobom/pkg/writer"
)

type nopCloser struct{ *bytes.Buffer }

func (nopCloser) Close() error { return nil }

// serializeQuery writes a document holding the node list in the given format and discards the output.
func serializeQuery(q string, nl *sbom.NodeList) string {
	f := map[string]formats.Format{"WriteSPDX23": formats.SPDX23JSON, "WriteCDX14": formats.CDX14JSON, "WriteCDX15": formats.CDX15JSON}[q]
	doc := sbom.NewDocument()
	doc.Metadata.Id = "urn:uuid:00000000-0000-0000-0000-000000000001"
	doc.NodeList = nl
	var buf bytes.Buffer
	err := writer.New().WriteStreamWithOptions(doc, nopCloser{&buf}, &writer.Options{Format: f})
	return errText(err)
}
