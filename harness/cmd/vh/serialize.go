package main

import (
	"bytes"
	"encoding/json"
	"math/rand"

	"verifharness/proj"

	"github.com/protobom/protobom/pkg/formats"
	"github.com/protobom/protobom/pkg/sbom"
	"github.com/protobom/protobom/pkg/writer"
)

type nopCloser struct{ *bytes.Buffer }

func (nopCloser) Close() error { return nil }

// serializeQuery writes a document holding the node list (and seeded, richly populated metadata: authors, tools,
// document types, date) in the given format and discards the output.  The second result names the part of the
// document outside the node list that differs, field by field and order-sensitively, after the call ("" when none).
func serializeQuery(q string, nl *sbom.NodeList, k int) (string, string) {
	f := map[string]formats.Format{"WriteSPDX23": formats.SPDX23JSON, "WriteCDX14": formats.CDX14JSON, "WriteCDX15": formats.CDX15JSON}[q]
	doc := sbom.NewDocument()
	r := rand.New(rand.NewSource(int64(k)*7919 + 1))
	fillMsg(r, doc.Metadata.ProtoReflect(), 0.7, 2, nil)
	if doc.Metadata.Id == "" {
		doc.Metadata.Id = "urn:uuid:00000000-0000-0000-0000-000000000001"
	}
	doc.NodeList = nl
	before, _ := json.Marshal(proj.Msg(doc.Metadata.ProtoReflect()))
	md := doc.Metadata
	var buf bytes.Buffer
	err := writer.New().WriteStreamWithOptions(doc, nopCloser{&buf}, &writer.Options{Format: f})
	changed := ""
	switch after, _ := json.Marshal(proj.Msg(md.ProtoReflect())); {
	case doc.Metadata != md || doc.NodeList != nl:
		changed = "parts-replaced"
	case !bytes.Equal(before, after):
		changed = "metadata"
	}
	return errText(err), changed
}
