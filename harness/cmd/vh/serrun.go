package main

import (
	"crypto/sha256"
	"encoding/json"
	"flag"
	"fmt"
	"github.com/protobom/protobom/pkg/native"
	"github.com/protobom/protobom/pkg/writer"
	"math/rand"
	"os"
	"path/filepath"
	"sort"
	"time"

	"github.com/protobom/protobom/pkg/formats"
	_ "github.com/protobom/protobom/pkg/native/serializers/beta"
	"github.com/protobom/protobom/pkg/sbom"
	"google.golang.org/protobuf/types/known/timestamppb"
	"verifharness/proj"
)

func init() { commands["ser-run"] = serRun }

var serFormats = []string{"spdx23", "cdx10", "cdx11", "cdx12", "cdx13", "cdx14", "cdx15", "spdx3"}

func init() { trFormats["spdx3"] = formats.Format("text/spdx+json;version=3.0") }

// shapeDoc builds a Document value of the given shape (Totality.tla).
// sweepDoc: a serializable three-node document in which ONE enum-valued field holds the given number.
func sweepDoc(s map[string]any) *sbom.Document {
	d := shapeDoc(map[string]any{"meta": "full", "nl": "nodes", "roots": "one", "nodes": "plain", "edges": "tree", "dt": "none", "extra": "none"}, rand.New(rand.NewSource(1)))
	v := int32(integer(s, "value"))
	a := d.NodeList.Nodes[0]
	b := d.NodeList.Nodes[1]
	switch str(s, "sweep") {
	case "edge_type":
		d.NodeList.Edges = append(d.NodeList.Edges, &sbom.Edge{Type: sbom.Edge_Type(v), From: "b", To: []string{"c"}})
	case "node_type":
		b.Type = sbom.Node_NodeType(v)
	case "purpose":
		b.PrimaryPurpose = []sbom.Purpose{sbom.Purpose(v)}
		a.PrimaryPurpose = []sbom.Purpose{sbom.Purpose(v)}
	case "hash_algorithm":
		b.Hashes = map[int32]string{v: "00ff"}
	case "identifier":
		b.Identifiers = map[int32]string{v: "pkg:npm/x@1"}
	case "extref_type":
		b.ExternalReferences = []*sbom.ExternalReference{{Type: sbom.ExternalReference_ExternalReferenceType(v), Url: "https://example.com"}}
	case "extref_hash":
		b.ExternalReferences = []*sbom.ExternalReference{{Type: sbom.ExternalReference_WEBSITE, Url: "https://example.com", Hashes: map[int32]string{v: "00ff"}}}
	case "document_type":
		t := sbom.DocumentType_SBOMType(v)
		d.Metadata.DocumentTypes = []*sbom.DocumentType{{Type: &t}}
	}
	return d
}

func shapeDoc(s map[string]any, r *rand.Rand) *sbom.Document {
	if _, ok := s["sweep"]; ok {
		return sweepDoc(s)
	}
	d := &sbom.Document{}
	switch str(s, "meta") {
	case "empty":
		d.Metadata = &sbom.Metadata{}
	case "full":
		d.Metadata = &sbom.Metadata{Id: "urn:uuid:3e671687-395b-41f5-a30f-a58921a69b79", Version: "3", Name: "shape doc", Comment: "c",
			Date: &timestamppb.Timestamp{Seconds: 1700000000}, Tools: []*sbom.Tool{{Name: "t", Version: "1", Vendor: "v"}},
			Authors: []*sbom.Person{{Name: "au", Email: "a@b.c"}}}
	}
	if d.Metadata != nil {
		other, nm, ds := sbom.DocumentType_OTHER, "custom", "desc"
		switch str(s, "dt") {
		case "typed":
			d.Metadata.DocumentTypes = []*sbom.DocumentType{{Type: sbom.DocumentType_BUILD.Enum()}}
		case "nilall":
			d.Metadata.DocumentTypes = []*sbom.DocumentType{{}}
		case "other-nilname":
			d.Metadata.DocumentTypes = []*sbom.DocumentType{{Type: &other}}
		case "other-named":
			d.Metadata.DocumentTypes = []*sbom.DocumentType{{Type: &other, Name: &nm, Description: &ds}}
		case "runtime":
			d.Metadata.DocumentTypes = []*sbom.DocumentType{{Type: sbom.DocumentType_RUNTIME.Enum()}}
		case "badenum":
			bad := sbom.DocumentType_SBOMType(99)
			d.Metadata.DocumentTypes = []*sbom.DocumentType{{Type: &bad}}
		case "negenum": // protobuf enums are int32: negative numbers survive decoding
			bad := sbom.DocumentType_SBOMType(-1)
			d.Metadata.DocumentTypes = []*sbom.DocumentType{{Type: &bad}}
		}
		switch str(s, "extra") {
		case "niltool":
			d.Metadata.Tools = append(d.Metadata.Tools, nil)
		case "nilauthor":
			d.Metadata.Authors = append(d.Metadata.Authors, nil)
		case "nildoctype":
			d.Metadata.DocumentTypes = append(d.Metadata.DocumentTypes, nil)
		}
	}
	switch str(s, "nl") {
	case "nil":
		return d
	case "empty":
		d.NodeList = &sbom.NodeList{}
	default:
		nl := &sbom.NodeList{}
		d.NodeList = nl
		a, b, c := &sbom.Node{Id: "a", Name: "na"}, &sbom.Node{Id: "b", Name: "nb", Type: sbom.Node_FILE}, &sbom.Node{Id: "c", Name: "nc"}
		switch str(s, "nodes") {
		case "nilnode":
			nl.Nodes = []*sbom.Node{a, nil, b, c}
		case "dupid":
			nl.Nodes = []*sbom.Node{a, b, c, {Id: "a", Name: "again"}}
		case "emptyid":
			nl.Nodes = []*sbom.Node{a, b, c, {Id: "", Name: "anonymous"}}
		case "badenum":
			a.Type = 7
			a.PrimaryPurpose = []sbom.Purpose{99}
			a.Hashes = map[int32]string{99: "x", 1: "y"}
			a.Identifiers = map[int32]string{99: "x"}
			a.ExternalReferences = []*sbom.ExternalReference{{Type: 999, Url: "u"}}
			nl.Nodes = []*sbom.Node{a, b, c}
		case "negenum":
			a.Type = -1
			a.PrimaryPurpose = []sbom.Purpose{-3}
			a.Hashes = map[int32]string{-1: "x", 1: "y"}
			a.Identifiers = map[int32]string{-2: "x"}
			a.ExternalReferences = []*sbom.ExternalReference{{Type: -1, Url: "u", Hashes: map[int32]string{-5: "h"}}}
			nl.Nodes = []*sbom.Node{a, b, c}
		case "protoids": // identifiers that start like generated ones without having their layout
			b.Id, c.Id = "protobom-sbom", "protobom--"
			nl.Nodes = []*sbom.Node{a, b, c, {Id: "protobom-", Name: "p"}, {Id: "protobom-auto", Name: "q"}, {Id: "protobom--auto--", Name: "s"}}
		case "odd-urls": // locators that are text, not URLs
			a.ExternalReferences = []*sbom.ExternalReference{{Type: sbom.ExternalReference_SECURITY_ADVISORY, Url: "see vendor note 12: fixed in 3.0.2"},
				{Type: sbom.ExternalReference_SECURITY_FIX, Url: "https://e.org/%zz"}, {Type: sbom.ExternalReference_SECURITY_OTHER, Url: "http://host name:port/"},
				{Type: sbom.ExternalReference_WEBSITE, Url: "://"}, {Type: sbom.ExternalReference_VCS, Url: "\x7f"}}
			a.UrlHome, a.UrlDownload = "%", "http://[::1"
			nl.Nodes = []*sbom.Node{a, b, c}
		case "mixed-purposes": // several purposes per node, the unknown one in front of, between and behind real ones
			a.PrimaryPurpose = []sbom.Purpose{sbom.Purpose_UNKNOWN_PURPOSE, sbom.Purpose_LIBRARY}
			b.PrimaryPurpose = []sbom.Purpose{sbom.Purpose_UNKNOWN_PURPOSE, sbom.Purpose_UNKNOWN_PURPOSE, sbom.Purpose_FILE}
			c.PrimaryPurpose = []sbom.Purpose{sbom.Purpose_FRAMEWORK, sbom.Purpose_UNKNOWN_PURPOSE, sbom.Purpose_APPLICATION, sbom.Purpose_FRAMEWORK}
			nl.Nodes = []*sbom.Node{a, b, c}
		case "rich":
			nl.Nodes = []*sbom.Node{randNode(r, "a", 0.9), b, randNode(r, "c", 0.9)}
		default:
			nl.Nodes = []*sbom.Node{a, b, c}
		}
		switch str(s, "extra") {
		case "nilperson":
			a.Suppliers = []*sbom.Person{nil, {Name: "s"}}
			a.Originators = []*sbom.Person{nil}
		case "nilextref":
			a.ExternalReferences = append(a.ExternalReferences, nil)
		case "paren-person":
			// names and addresses that contain the characters the SPDX actor syntax "Name (address)" is built from
			a.Suppliers = []*sbom.Person{{Name: "ACME Corp. :)", Email: "sbom@acme.example"}}
			a.Originators = []*sbom.Person{{Name: "open (source", Email: "a(b)@c.example", IsOrg: true}}
			c.Suppliers = []*sbom.Person{{Name: ")", Email: ")"}, {Name: "(", Email: "("}}
			c.Originators = []*sbom.Person{{Name: " (", Email: "x"}}
		}
		ct := sbom.Edge_contains
		switch str(s, "edges") {
		case "tree":
			nl.Edges = []*sbom.Edge{{Type: ct, From: "a", To: []string{"b", "c"}}, {Type: sbom.Edge_dependsOn, From: "c", To: []string{"b"}}}
		case "cycle":
			nl.Edges = []*sbom.Edge{{Type: ct, From: "a", To: []string{"b"}}, {Type: ct, From: "b", To: []string{"c"}}, {Type: ct, From: "c", To: []string{"a"}}}
		case "cycle-tail": // a containment cycle entered from a node outside it
			// root a > b > c > d > c : the cycle {c, d} is first reached from b, which is neither the root nor in the cycle
			nl.Nodes = append(nl.Nodes, &sbom.Node{Id: "d", Name: "nd"})
			nl.Edges = []*sbom.Edge{{Type: ct, From: "a", To: []string{"b"}}, {Type: ct, From: "b", To: []string{"c"}},
				{Type: ct, From: "c", To: []string{"d"}}, {Type: ct, From: "d", To: []string{"c"}}}
		case "deps-cycle":
			nl.Edges = []*sbom.Edge{{Type: ct, From: "a", To: []string{"b", "c"}}, {Type: sbom.Edge_dependsOn, From: "b", To: []string{"c"}}, {Type: sbom.Edge_dependsOn, From: "c", To: []string{"b", "c"}}}
		case "island-cycle": // a containment cycle reachable neither from the root nor from a parentless node
			nl.Nodes = append(nl.Nodes, &sbom.Node{Id: "d", Name: "nd"})
			nl.Edges = []*sbom.Edge{{Type: ct, From: "a", To: []string{"b"}}, {Type: ct, From: "c", To: []string{"d"}}, {Type: ct, From: "d", To: []string{"c"}}}
		case "dup-deps": // a dependency list that repeats a target before another one
			nl.Edges = []*sbom.Edge{{Type: ct, From: "a", To: []string{"b", "c"}}, {Type: sbom.Edge_dependsOn, From: "a", To: []string{"b", "b", "c"}},
				{Type: sbom.Edge_dependsOn, From: "b", To: []string{"c", "c", "a", "c"}}}
		case "dag": // a node contained twice
			nl.Edges = []*sbom.Edge{{Type: ct, From: "a", To: []string{"b", "c"}}, {Type: ct, From: "b", To: []string{"c"}}}
		case "dangling":
			nl.Edges = []*sbom.Edge{{Type: ct, From: "a", To: []string{"zz"}}, {Type: sbom.Edge_dependsOn, From: "yy", To: []string{"a"}}}
		case "niledge":
			nl.Edges = []*sbom.Edge{{Type: ct, From: "a", To: []string{"b"}}, nil}
		case "dupedge":
			nl.Edges = []*sbom.Edge{{Type: ct, From: "a", To: []string{"b", "b"}}, {Type: ct, From: "a", To: []string{"b", "c"}}}
		case "emptyto":
			nl.Edges = []*sbom.Edge{{Type: ct, From: "a"}, {Type: 99, From: "b", To: []string{"c"}}}
		case "selfloop":
			nl.Edges = []*sbom.Edge{{Type: ct, From: "a", To: []string{"a"}}, {Type: sbom.Edge_dependsOn, From: "b", To: []string{"b"}}}
		case "shared-child": // a node contained by a top-level node AND by a node below the root
			nl.Nodes = append(nl.Nodes, &sbom.Node{Id: "d", Name: "nd"})
			nl.Edges = []*sbom.Edge{{Type: ct, From: "a", To: []string{"c"}}, {Type: ct, From: "b", To: []string{"d"}}, {Type: ct, From: "c", To: []string{"d"}}}
		case "random": // seeded containment / dependency edges over five nodes (the seed is the position of the shape)
			nl.Nodes = append(nl.Nodes, &sbom.Node{Id: "d", Name: "nd"}, &sbom.Node{Id: "e", Name: "ne"})
			ids := []string{"a", "b", "c", "d", "e"}
			for j, m := 0, 2+r.Intn(6); j < m; j++ {
				e := &sbom.Edge{Type: pick(r, []sbom.Edge_Type{ct, ct, sbom.Edge_dependsOn}), From: pick(r, ids)}
				for q, mm := 0, 1+r.Intn(2); q < mm; q++ {
					e.To = append(e.To, pick(r, ids))
				}
				nl.Edges = append(nl.Edges, e)
			}
		case "ladder": // forty layers of two nodes, each containing both nodes of the next layer: 2^40 containment paths, 81 nodes
			prev := []string{"a"}
			for layer := 0; layer < 40; layer++ {
				cur := []string{fmt.Sprintf("l%d-x", layer), fmt.Sprintf("l%d-y", layer)}
				for _, id := range cur {
					nl.Nodes = append(nl.Nodes, &sbom.Node{Id: id, Name: id})
				}
				for _, p := range prev {
					nl.Edges = append(nl.Edges, &sbom.Edge{Type: ct, From: p, To: append([]string{}, cur...)})
				}
				prev = cur
			}
		case "negtype":
			nl.Edges = []*sbom.Edge{{Type: ct, From: "a", To: []string{"b"}}, {Type: -1, From: "b", To: []string{"c"}}, {Type: -2147483648, From: "a", To: []string{"c"}}}
		}
		switch str(s, "roots") {
		case "one":
			nl.RootElements = []string{"a"}
		case "many":
			nl.RootElements = []string{"a", "c"}
		case "dangling":
			nl.RootElements = []string{"zz"}
		case "dup":
			nl.RootElements = []string{"a", "a"}
		case "emptyid":
			nl.RootElements = []string{""}
		}
	}
	return d
}

// normalise masks the creation timestamp and sorts every array canonically, so outputs can be compared
// "up to the creation timestamp and the order of set-valued arrays".
func normalise(data []byte) string {
	var v any
	if json.Unmarshal(data, &v) != nil {
		return fmt.Sprintf("raw:%x", sha256.Sum256(data))
	}
	var canonv func(v any) any
	canonv = func(v any) any {
		switch x := v.(type) {
		case map[string]any:
			for k, e := range x {
				if k == "created" || k == "timestamp" {
					x[k] = "MASKED"
				} else {
					x[k] = canonv(e)
				}
			}
			return x
		case []any:
			enc := make([]string, len(x))
			for i, e := range x {
				b, _ := json.Marshal(canonv(e))
				enc[i] = string(b)
			}
			sort.Strings(enc)
			out := make([]any, len(enc))
			for i, e := range enc {
				out[i] = json.RawMessage(e)
			}
			return out
		}
		return v
	}
	b, _ := json.Marshal(canonv(v))
	return fmt.Sprintf("%x", sha256.Sum256(b))[:16]
}

func serRun(args []string) error {
	fs := flag.NewFlagSet("ser-run", flag.ExitOnError)
	out := fs.String("out", "", "trace file")
	shapes := fs.String("shapes", "", "shape file exported by TLC ({\"all\":[...]})")
	seed := fs.Int64("seed", 1, "seed")
	sample := fs.Int("sample", 0, "number of shapes to run (0 = all)")
	shard := fs.Int("shard", 0, "this shard")
	nshards := fs.Int("shards", 1, "number of shards")
	replay := fs.String("replay", "", "replay file")
	child := fs.Bool("child", false, "internal")
	fs.IntVar(&skipCases, "skip", 0, "internal")
	fs.Parse(args)
	if !*child {
		var pass []string
		for i := 0; i < len(args); i++ {
			if args[i] == "--out" {
				i++
				continue
			}
			pass = append(pass, args[i])
		}
		return isolate("ser-run", pass, *out)
	}
	capChildMemory()
	defer func() {
		for _, f := range []string{"spdx23", "cdx15"} {
			os.Remove(filepath.Join(os.TempDir(), fmt.Sprintf("vh-ser-%d-%s.json", os.Getpid(), f)))
		}
	}()
	w, err := newNDWriter(*out)
	if err != nil {
		return err
	}
	defer w.close()
	var list []map[string]any
	if *replay != "" {
		readND(*replay, func(ev map[string]any) error {
			if sh := obj(ev, "shape"); sh != nil {
				list = append(list, sh)
			}
			return nil
		})
	} else {
		raw, err := os.ReadFile(*shapes)
		if err != nil {
			return err
		}
		var file struct {
			Sweeps []map[string]any `json:"sweeps"`
			All    []map[string]any `json:"all"`
		}
		if err := json.Unmarshal(raw, &file); err != nil {
			return err
		}
		r := rand.New(rand.NewSource(*seed))
		all := file.All
		// a stable order, then a seeded shuffle, then this shard's share
		sort.Slice(all, func(i, j int) bool { return canon(all[i]) < canon(all[j]) })
		r.Shuffle(len(all), func(i, j int) { all[i], all[j] = all[j], all[i] })
		if *sample > 0 && *sample < len(all) {
			// the sample always contains the "serializable core" (complete metadata, nodes, exactly one root, no nil
			// elements) in full - there every node and edge variant reaches the deepest code - plus a seeded share of the rest
			var core, rest []map[string]any
			for _, sh := range all {
				if str(sh, "meta") == "full" && str(sh, "nl") == "nodes" && str(sh, "roots") == "one" && (str(sh, "extra") == "none" || str(sh, "extra") == "paren-person") &&
					(str(sh, "dt") == "none" || str(sh, "dt") == "typed") {
					core = append(core, sh)
				} else {
					rest = append(rest, sh)
				}
			}
			all = append(core, rest[:max(0, *sample-len(core))]...)
		}
		for i, s := range all {
			if i%*nshards == *shard {
				list = append(list, s)
			}
		}
		// the enum sweep is small: always executed in full
		sort.Slice(file.Sweeps, func(i, j int) bool { return canon(file.Sweeps[i]) < canon(file.Sweeps[j]) })
		for i, s := range file.Sweeps {
			if i%*nshards == *shard {
				list = append(list, s)
			}
		}
	}
	sid := 0
	one := func(k int, pass string) {
		s := list[k]
		doc := shapeDoc(s, rand.New(rand.NewSource(int64(k))))
		// ONE document value goes through all serializers; the second pass uses the opposite format order, so
		// each format sees the document after different others have had it
		order := serFormats
		if pass == "SER2" {
			order = make([]string, len(serFormats))
			for i, f := range serFormats {
				order[len(serFormats)-1-i] = f
			}
		}
		for _, f := range order {
			sid++
			ev := map[string]any{"op": pass, "sid": sid, "case": k, "shape": s, "fmt": f, "o": outcome("skip", ""), "n": ""}
			if sid <= skipCases {
				continue
			}
			ev["op"] = pass + "-begin"
			w.write(ev)
			w.flush()
			ev["op"] = pass
			data, kind, text := writeDoc(doc, trFormats[f], 2)
			ev["o"] = outcome(kind, text)
			if kind == "ok" {
				ev["n"] = normalise(data)
				if pass == "SER" && (f == "spdx23" || f == "cdx15") && k%3 == 0 {
					// the same document through the path-taking entry point, into a path that earlier documents were written to
					path := filepath.Join(os.TempDir(), fmt.Sprintf("vh-ser-%d-%s.json", os.Getpid(), f))
					var ferr error
					fk, _ := guarded(20*time.Second, func() {
						ferr = writer.New(writer.WithFormat(trFormats[f]), writer.WithRenderOptions(&native.RenderOptions{Indent: 2})).WriteFile(doc, path)
					})
					if fk == "ok" && ferr == nil {
						if b, err := os.ReadFile(path); err == nil {
							ev["nfile"] = normalise(b)
						}
					}
				}
			}
			if pass == "SER" && k < 3 && f == "cdx15" {
				ev["doc"] = proj.Doc(doc)
			}
			w.write(ev)
			w.flush()
			exitIfLeaked(w)
		}
	}
	// blocks of 40 documents: each block is serialized in order and then again in the opposite order, so every
	// document is written at two different history positions (the block bounds what the validator must remember)
	const block = 40
	for b := 0; b < len(list); b += block {
		end := min(b+block, len(list))
		for k := b; k < end; k++ {
			one(k, "SER")
		}
		for k := end - 1; k >= b; k-- {
			one(k, "SER2")
		}
	}
	return nil
}
