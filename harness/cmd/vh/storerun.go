package main

import (
	"bufio"
	"encoding/json"
	"flag"
	"fmt"
	"google.golang.org/protobuf/proto"
	"math/rand"
	"os"
	"os/exec"
	"path/filepath"
	"sort"
	"strings"
	"time"

	"github.com/protobom/protobom/pkg/reader"
	"github.com/protobom/protobom/pkg/sbom"
	"github.com/protobom/protobom/pkg/storage"
	"github.com/protobom/protobom/pkg/writer"
	"verifharness/proj"
)

func init() {
	commands["store-run"] = storeRun
	commands["store-child"] = storeChild
}

var hostileIDs = []string{
	"urn:uuid:11111111-1111-1111-1111-111111111111", "plain", "../escape", "../../escape2", "/abs/path/id", "a/b/c", "..", ".",
	"ünïcode-✓-id", " leading and trailing ", "with\nnewline", "%2e%2e%2fencoded", "C:\\windows\\style", "semi;colon&amp",
	strings.Repeat("long", 1024), "",
}

func storeDoc(r *rand.Rand, id string) *sbom.Document {
	d := sbom.NewDocument()
	d.Metadata.Id = id
	d.Metadata.Name = pick(r, []string{"alpha", "beta", "gamma"})
	d.Metadata.Version = fmt.Sprint(r.Intn(3))
	o := listOpts{ids: idPool(3), rich: 0.3, types: edgeTypes2, maxNodes: 3}
	d.NodeList = randList(r, o)
	if id == "" && r.Intn(2) == 0 {
		d.Metadata = nil // a document built from a node list only has no identifier either
	}
	return d
}

// storeRun generates store scripts and executes each in child processes (unprivileged when possible).
func storeRun(args []string) error {
	fs := flag.NewFlagSet("store-run", flag.ExitOnError)
	out := fs.String("out", "", "trace file")
	seed := fs.Int64("seed", 1, "seed")
	n := fs.Int("n", 20, "scripts")
	length := fs.Int("len", 14, "steps per script")
	replay := fs.String("replay", "", "replay file")
	scripts := fs.String("scripts", "", "behaviours exported by TLC from Store.tla (ndjson, calls only)")
	fs.Parse(args)
	w, err := newNDWriter(*out)
	if err != nil {
		return err
	}
	defer w.close()
	base, err := os.MkdirTemp("", "vh-store-")
	if err != nil {
		return err
	}
	defer func() {
		exec.Command("chmod", "-R", "u+rwx", base).Run()
		os.RemoveAll(base)
	}()
	os.Chmod(base, 0o777)
	self, _ := os.Executable()
	unpriv := false
	if os.Geteuid() == 0 {
		if err := exec.Command("setpriv", "--reuid=65534", "--regid=65534", "--clear-groups", self, "store-child", "--probe").Run(); err == nil {
			unpriv = true
		}
	} else {
		unpriv = true
	}

	runScript := func(sid int, steps []map[string]any) {
		sandbox := filepath.Join(base, fmt.Sprintf("s%d", sid))
		os.MkdirAll(sandbox, 0o777)
		os.Chmod(sandbox, 0o777)
		w.write(map[string]any{"op": "Reset", "sid": sid, "unprivileged": unpriv})
		next := 0
		for next < len(steps) {
			script := filepath.Join(sandbox, "..", fmt.Sprintf("script-%d-%d.json", sid, next))
			journal := filepath.Join(sandbox, "..", fmt.Sprintf("journal-%d-%d.ndjson", sid, next))
			b, _ := json.Marshal(steps[next:])
			os.WriteFile(script, b, 0o644)
			os.WriteFile(journal, nil, 0o666)
			os.Chmod(journal, 0o666)
			argv := []string{self, "store-child", "--script", script, "--journal", journal, "--sandbox", sandbox}
			if os.Geteuid() == 0 && unpriv {
				argv = append([]string{"setpriv", "--reuid=65534", "--regid=65534", "--clear-groups"}, argv...)
			}
			cmd := exec.Command(argv[0], argv[1:]...)
			cmd.Stderr = nil
			done := make(chan error, 1)
			cmd.Start()
			go func() { done <- cmd.Wait() }()
			var werr error
			hung := false
			select {
			case werr = <-done:
			case <-time.After(60 * time.Second):
				cmd.Process.Kill()
				<-done
				hung = true
			}
			// collect the journal
			completed, inflight := 0, false
			f, _ := os.Open(journal)
			sc := bufio.NewScanner(f)
			sc.Buffer(make([]byte, 1<<20), 1<<28)
			for sc.Scan() {
				var ev map[string]any
				if json.Unmarshal(sc.Bytes(), &ev) != nil {
					continue
				}
				if ev["journal"] == "begin" {
					inflight = true
					continue
				}
				inflight = false
				ev["sid"] = sid
				w.write(ev)
				completed++
			}
			f.Close()
			os.Remove(script)
			os.Remove(journal)
			next += completed
			if inflight && next < len(steps) {
				// the child died (or hung) inside this step
				ev := steps[next]
				ev["sid"] = sid
				kind := "exit"
				if hung {
					kind = "hang"
				}
				ev["res"] = map[string]any{"kind": kind, "text": fmt.Sprint(werr)}
				ev["outside"] = []any{}
				ev["direxists"] = dirExists(filepath.Join(sandbox, "store"))
				w.write(ev)
				next++
				continue
			}
			if completed == 0 {
				break // child could not start: infrastructure
			}
		}
	}

	if *replay != "" {
		var steps []map[string]any
		readND(*replay, func(ev map[string]any) error {
			if str(ev, "op") != "Reset" {
				steps = append(steps, ev)
			}
			return nil
		})
		runScript(1, steps)
		return nil
	}

	r := rand.New(rand.NewSource(*seed))
	if *scripts != "" {
		// behaviours of the specification: abstract keys and payloads become real identifiers and documents
		keyOf := map[string]string{"": "", "k1": hostileIDs[0], "k2": "../escape", "k3": " k1 twin "}
		var steps []map[string]any
		sid := 0
		flush := func() {
			if len(steps) > 0 {
				runScript(sid, steps)
			}
			steps = nil
		}
		err := readND(*scripts, func(ev map[string]any) error {
			switch str(ev, "op") {
			case "Reset":
				flush()
				sid = integer(ev, "sid")
				return nil
			case "Store":
				d := sbom.NewDocument()
				d.Metadata.Id = keyOf[str(ev, "id")]
				d.Metadata.Name = str(ev, "payload")
				d.NodeList.AddRootNode(&sbom.Node{Id: "n-" + str(ev, "payload"), Name: str(ev, "payload")})
				nc, _ := ev["nc"].(bool)
				steps = append(steps, map[string]any{"op": "Store", "id": d.Metadata.Id, "doc": proj.Doc(d), "nc": nc})
			case "Retrieve", "Delete":
				steps = append(steps, map[string]any{"op": str(ev, "op"), "id": keyOf[str(ev, "id")]})
			case "Corrupt":
				steps = append(steps, map[string]any{"op": "Corrupt", "id": keyOf[str(ev, "id")], "how": str(ev, "how")})
			case "ChmodDir":
				if unpriv {
					steps = append(steps, map[string]any{"op": "ChmodDir", "mode": str(ev, "mode")})
				}
			case "RemoveDir", "MakeFile":
				steps = append(steps, map[string]any{"op": str(ev, "op")})
			}
			return nil
		})
		flush()
		if err != nil {
			return err
		}
	}
	for sid := 1; sid <= *n; sid++ {
		ids := []string{pick(r, hostileIDs), pick(r, hostileIDs), pick(r, hostileIDs[:4])}
		if sid%2 == 0 {
			// near-twins of one identifier: different strings are different keys, however similar
			base := pick(r, hostileIDs[:len(hostileIDs)-2])
			if r.Intn(3) == 0 {
				base = pick(r, []string{"a%2Fb", "urn%3Auuid%3A1234", "my%20doc", "100%d", "%s%s", "%v", "50%"})
			}
			twins := []string{strings.Replace(base, "%2", "%3", 1), strings.Replace(base, "%3A", "%2A", -1), strings.Replace(base, "%20", "%09", 1), base + "%", strings.Replace(base, "%d", "%s", 1), " " + base, base + " ", base + "\n", "\t" + base, strings.ToUpper(base), base + "/", "./" + base, base + "\x00", base + base}
			ids = []string{base, pick(r, twins), pick(r, twins)}
		}
		var steps []map[string]any
		add := func(op string, kv ...any) {
			ev := map[string]any{"op": op}
			for i := 0; i+1 < len(kv); i += 2 {
				ev[kv[i].(string)] = kv[i+1]
			}
			steps = append(steps, ev)
		}
		retrieveAll := func() {
			for _, id := range ids {
				add("Retrieve", "id", id)
			}
		}
		for j := 0; j < *length; j++ {
			id := pick(r, ids)
			switch k := r.Intn(12); {
			case k <= 4:
				pd := proj.Doc(storeDoc(r, id))
				if r.Intn(12) == 0 && id != "" {
					// a text field that is not valid UTF-8 cannot be written as protobuf: the store refuses, and the document
					// handed in is still what it was (the projection cannot carry such text: the child sets it)
					pd["badutf8"] = true
				}
				if r.Intn(5) == 0 {
					pd["unk"] = 9 // fields this version of the schema does not know (written by a newer one) belong to the document
				}
				add("Store", "id", id, "doc", pd, "nc", r.Intn(3) == 0)
				retrieveAll()
			case k <= 6:
				add("Retrieve", "id", pick(r, append(ids, "never-stored")))
			case k == 7:
				add("Corrupt", "id", id, "how", pick(r, []string{"empty", "garbage", "foreign", "unreadable"}))
				add("Retrieve", "id", id)
			case k == 8:
				add("Delete", "id", id)
				add("Retrieve", "id", id)
			case k == 9:
				add("RemoveDir")
				retrieveAll()
			case k == 10:
				if unpriv {
					add("ChmodDir", "mode", pick(r, []string{"readonly", "noaccess", "present"}))
				}
			default:
				if r.Intn(3) == 0 {
					add("MakeFile")
				} else {
					add("Store", "id", "", "doc", proj.Doc(storeDoc(r, "")), "nc", false)
				}
			}
		}
		add("ChmodDir", "mode", "present")
		retrieveAll()
		runScript(sid, steps)
	}
	return nil
}

func dirExists(p string) bool {
	st, err := os.Lstat(p)
	return err == nil && st.IsDir()
}

func listTree(root string) map[string]bool {
	out := map[string]bool{}
	filepath.Walk(root, func(p string, info os.FileInfo, err error) error {
		if err == nil && p != root {
			rel, _ := filepath.Rel(root, p)
			out[rel] = true
		}
		return nil
	})
	return out
}

// storeChild executes store steps on the real storage backend, journaling each step ahead.
func storeChild(args []string) error {
	fs := flag.NewFlagSet("store-child", flag.ExitOnError)
	script := fs.String("script", "", "")
	journal := fs.String("journal", "", "")
	sandbox := fs.String("sandbox", "", "")
	probe := fs.Bool("probe", false, "")
	fs.Parse(args)
	if *probe {
		return nil
	}
	b, err := os.ReadFile(*script)
	if err != nil {
		return err
	}
	var steps []map[string]any
	if err := json.Unmarshal(b, &steps); err != nil {
		return err
	}
	jf, err := os.OpenFile(*journal, os.O_WRONLY|os.O_APPEND, 0)
	if err != nil {
		return err
	}
	emit := func(v any) {
		line, _ := json.Marshal(v)
		jf.Write(append(line, '\n'))
	}
	storeDir := filepath.Join(*sandbox, "store")
	// the current working directory is a decoy: relative escapes would land here
	cwd := filepath.Join(*sandbox, "cwd")
	os.MkdirAll(cwd, 0o777)
	os.Chdir(cwd)
	backend := &storage.FileSystem{Options: storage.FileSystemOptions{Path: storeDir}}
	fileOf := func(id string) string { // where the harness believes the entry lives: found by listing, not by hashing
		return ""
	}
	_ = fileOf
	for i, ev := range steps {
		emit(map[string]any{"journal": "begin", "i": i})
		before := listTree(*sandbox)
		beforeStore := listTree(storeDir)
		res := map[string]any{"kind": "ok"}
		func() {
			defer func() {
				if r := recover(); r != nil {
					res["kind"], res["text"] = "panic", fmt.Sprint(r)
				}
			}()
			switch str(ev, "op") {
			case "Store":
				doc := proj.ToDoc(obj(ev, "doc"))
				if doc != nil && integer(obj(ev, "doc"), "unk") > 0 {
					unk := []byte{0xc0, 0x3e, 0x07} // field 1000, varint 7
					doc.ProtoReflect().SetUnknown(unk)
					if doc.Metadata != nil {
						doc.Metadata.ProtoReflect().SetUnknown(unk)
					}
					if doc.NodeList != nil {
						doc.NodeList.ProtoReflect().SetUnknown(unk)
					}
				}
				if doc != nil && obj(ev, "doc")["badutf8"] == true && doc.Metadata != nil {
					doc.Metadata.Name = "caf\xe9 (latin-1)"
					if doc.NodeList != nil && len(doc.NodeList.Nodes) > 0 {
						doc.NodeList.Nodes[0].Comment = "\xff\xfe"
					}
				}
				var before proto.Message
				if doc != nil {
					before = proto.Clone(doc)
				}
				nc, _ := ev["nc"].(bool)
				// odd steps go through the writer's Store API with the backend installed, even steps call the backend directly
				var err error
				if i%2 == 1 && doc != nil {
					ev["via"] = "writer"
					err = writer.New(writer.WithStoreRetriever(backend)).StoreWithOptions(doc, &writer.Options{StoreOptions: &storage.StoreOptions{NoClobber: nc}})
				} else {
					err = backend.Store(doc, &storage.StoreOptions{NoClobber: nc})
				}
				if before != nil && !proto.Equal(before, doc) {
					ev["docchanged"] = true // storing is serializing: the document handed in is not modified
				}
				if err != nil {
					res["kind"], res["text"] = "err", err.Error()
				} else {
					// remember which file belongs to this id (diff of the listing)
					after := listTree(storeDir)
					for p := range after {
						if !beforeStore[p] && !strings.Contains(p, ".tmp-") {
							rememberEntry(*sandbox, str(ev, "id"), p)
						}
					}
				}
			case "Retrieve":
				var doc *sbom.Document
				var err error
				if i%2 == 1 {
					ev["via"] = "reader"
					doc, err = reader.New(reader.WithStoreRetriever(backend)).Retrieve(str(ev, "id"))
				} else {
					doc, err = backend.Retrieve(str(ev, "id"), nil)
				}
				switch {
				case err != nil && doc != nil:
					res["kind"] = "both"
				case err != nil:
					res["kind"], res["text"] = "err", err.Error()
				case doc == nil:
					res["kind"] = "neither"
				default:
					pd := proj.Doc(doc)
					n := len(doc.ProtoReflect().GetUnknown())
					if doc.Metadata != nil {
						n += len(doc.Metadata.ProtoReflect().GetUnknown())
					}
					if doc.NodeList != nil {
						n += len(doc.NodeList.ProtoReflect().GetUnknown())
					}
					if n > 0 {
						pd["unk"] = n
					}
					ev["doc"] = pd
				}
			case "RemoveDir":
				os.Chmod(storeDir, 0o755)
				os.RemoveAll(storeDir)
				forgetEntries(*sandbox)
			case "MakeFile":
				os.Chmod(storeDir, 0o755)
				os.RemoveAll(storeDir)
				forgetEntries(*sandbox)
				os.WriteFile(storeDir, []byte("not a directory"), 0o644)
			case "ChmodDir":
				mode := map[string]os.FileMode{"readonly": 0o555, "noaccess": 0o000, "present": 0o755}[str(ev, "mode")]
				if dirExists(storeDir) {
					os.Chmod(storeDir, mode)
				} else {
					ev["mode"] = "same"
				}
			case "Corrupt":
				if p := entryFile(*sandbox, str(ev, "id")); p != "" {
					full := filepath.Join(storeDir, p)
					var ferr error
					switch str(ev, "how") {
					case "empty":
						ferr = os.WriteFile(full, nil, 0o644)
					case "garbage":
						ferr = os.WriteFile(full, []byte{0xff, 0xff, 0xff, 0xff, 0x07, 0x00, 0xff}, 0o644)
					case "foreign":
						other := sbom.NewDocument()
						other.Metadata.Id = "some-other-document"
						backend2 := &storage.FileSystem{Options: storage.FileSystemOptions{Path: filepath.Join(*sandbox, "other")}}
						if backend2.Store(other, nil) == nil {
							for q := range listTree(filepath.Join(*sandbox, "other")) {
								if data, err := os.ReadFile(filepath.Join(*sandbox, "other", q)); err == nil {
									ferr = os.WriteFile(full, data, 0o644)
								}
							}
						}
						os.RemoveAll(filepath.Join(*sandbox, "other"))
					case "unreadable":
						ferr = os.Chmod(full, 0o000)
					}
					if ferr != nil {
						ev["id"] = "" // the fault could not be injected (directory permissions): no effect
					}
				} else {
					ev["id"] = "" // nothing to corrupt: no effect
				}
			case "Delete":
				if p := entryFile(*sandbox, str(ev, "id")); p != "" {
					if os.Remove(filepath.Join(storeDir, p)) == nil {
						rememberEntry(*sandbox, str(ev, "id"), "")
					} else {
						ev["id"] = "" // could not be deleted (directory permissions): no effect
					}
				} else {
					ev["id"] = ""
				}
			}
		}()
		if str(ev, "op") == "ChmodDir" && ev["mode"] == "same" {
			ev["op"] = "Noop"
		}
		ev["res"] = res
		ev["direxists"] = dirExists(storeDir)
		// confinement: anything new in the sandbox outside the store directory (and the harness's own bookkeeping)
		outside := []string{}
		for p := range listTree(*sandbox) {
			if !before[p] && !strings.HasPrefix(p, "store") && !strings.HasPrefix(p, "cwd") && !strings.HasPrefix(p, "entries.json") && !strings.HasPrefix(p, "other") {
				outside = append(outside, p)
			}
			if !before[p] && (strings.HasPrefix(p, "cwd/")) {
				outside = append(outside, p)
			}
		}
		if str(ev, "op") == "Store" || str(ev, "op") == "Retrieve" {
			// entries must be direct children of the store directory
			for p := range listTree(storeDir) {
				if strings.Contains(p, string(filepath.Separator)) {
					outside = append(outside, "store/"+p)
				}
			}
		}
		sort.Strings(outside)
		ev["outside"] = outside
		emit(ev)
	}
	return nil
}

// the harness's own bookkeeping of which file holds which identifier (learned from directory listings)
func entriesPath(sandbox string) string { return filepath.Join(sandbox, "entries.json") }

func loadEntries(sandbox string) map[string]string {
	m := map[string]string{}
	if b, err := os.ReadFile(entriesPath(sandbox)); err == nil {
		json.Unmarshal(b, &m)
	}
	return m
}

func rememberEntry(sandbox, id, file string) {
	m := loadEntries(sandbox)
	if file == "" {
		delete(m, id)
	} else {
		m[id] = file
	}
	b, _ := json.Marshal(m)
	os.WriteFile(entriesPath(sandbox), b, 0o666)
}

func forgetEntries(sandbox string) { os.Remove(entriesPath(sandbox)) }

func entryFile(sandbox, id string) string {
	p := loadEntries(sandbox)[id]
	if p == "" {
		return ""
	}
	if _, err := os.Lstat(filepath.Join(sandbox, "store", p)); err != nil {
		return ""
	}
	return p
}
