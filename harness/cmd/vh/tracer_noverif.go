//go:build !verif

package main

func installTracer(func(op, key string)) {}
