//go:build verif

package main

import "github.com/protobom/protobom/pkg/verifhook"

func installTracer(f func(op, key string)) { verifhook.Tracer = f }
