package main

import (
	"fmt"
	"math/rand"
	"strings"

	"github.com/protobom/protobom/pkg/sbom"
	"google.golang.org/protobuf/types/known/timestamppb"
)

// Generators of documents for the translation family.

// text JSON carries without escapes (no quotes, backslashes, control characters, <, >, &, U+2028/9)
var textPool = []string{"alpha", "Beta Gamma", "d-e_f.g", "Ünïcödé", "日本語テキスト", "é combining", "emoji 🚀 ok", "עברית", "x", "1.2.3-rc1+build",
	"https://example.com/a/b?c=d", "MIT OR Apache-2.0", "Copyright (c) 2024 The Authors", "tab-free text with  two spaces",
	// code-point sequences that a normalisation would change, and characters a text filter might touch
	"e\u0301 decomposed", "\u1112\u1161\u11ab jamo", "\u212b angstrom sign", "\ufeffbom inside", "line1\r\nline2", "cr\ronly", "trailing space ", strings.Repeat("long text ", 600)}

// includes identifiers that merely look like the reserved, reader-generated ones
var spdxIDPool = []string{"a", "b", "c", "pkg-1", "File.2", "X-9", "n0", "lib.z-3", "root", "Zed", "Package-autoconf", "pkg-automake--1.16", "x-auto--1", "auto", "node--7", "Document", "document", "DOCUMENTS", "NONE", "NOASSERTION"}

func txt(r *rand.Rand) string { return pick(r, textPool) }

func tsOf(r *rand.Rand) *timestamppb.Timestamp {
	// ordinary instants, the Unix epoch, the first and the last second protobuf calls valid (years 1 and 9999), a year turn, a leap day
	ts := &timestamppb.Timestamp{Seconds: pick(r, []int64{1577934245, 946684800, 1700166898, 1, 1767225599, 0, -62135596800, 253402300799, 1709251199, -1})}
	// dates are carried to the second: a sub-second part must neither be kept nor round the second up
	ts.Nanos = pick(r, []int32{0, 0, 1, 499999999, 500000000, 750000000, 999999999})
	return ts
}

var spdxAlgos = []int32{1, 2, 3, 4, 5, 6, 7, 8, 9, 10, 11, 12, 14, 15, 16, 17}
var cdxAlgos = []int32{1, 2, 3, 4, 5, 6, 7, 8, 9, 10, 11, 12}
var spdxNativePurposes = []sbom.Purpose{1, 14, 16, 5, 21, 7, 13, 26, 2, 12, 15, 22}
var spdxNativeRefs = []sbom.ExternalReference_ExternalReferenceType{4, 26, 29, 30, 44, 46, 47, 31}
var cdx14Purposes = []sbom.Purpose{1, 14, 16, 5, 21, 7, 13}
var cdx15Purposes = []sbom.Purpose{1, 14, 16, 5, 21, 7, 13, 24, 8, 17, 6}
var cdx14Refs = []sbom.ExternalReference_ExternalReferenceType{3, 5, 6, 8, 14, 13, 21, 22, 24, 31, 32, 39, 44, 45, 52, 55, 56, 60}
var cdx15OnlyRefs = []sbom.ExternalReference_ExternalReferenceType{43, 1, 7, 9, 10, 11, 12, 15, 17, 59, 19, 23, 25, 28, 48, 37, 40, 41, 54, 51, 57}

func maybe(r *rand.Rand, p float64) bool { return r.Float64() < p }

func hashesOver(r *rand.Rand, algos []int32, sweep int) map[int32]string {
	h := map[int32]string{}
	if sweep >= 0 {
		h[algos[sweep%len(algos)]] = "deadbeef"
	}
	for i, n := 0, r.Intn(3); i < n; i++ {
		h[pick(r, algos)] = pick(r, []string{"aa11", "0123456789abcdef", "ff"})
	}
	return h
}

// spdxNoise sets attributes the property does not list (free texts, attribution, file types; for files also the
// package-only ones): they must not disturb the listed ones.
func spdxNoise(r *rand.Rand, n *sbom.Node, p float64) {
	if r.Intn(3) != 0 {
		return
	}
	fields := []*string{&n.Description, &n.Summary, &n.Comment, &n.SourceInfo}
	if n.Type == sbom.Node_FILE {
		fields = append(fields, &n.Version, &n.UrlHome, &n.UrlDownload)
	}
	for _, f := range fields {
		if maybe(r, p) {
			*f = txt(r)
		}
	}
	if maybe(r, p) {
		n.Attribution = []string{txt(r), txt(r)}
	}
	if maybe(r, p) {
		n.FileTypes = []string{pick(r, []string{"SOURCE", "BINARY", "TEXT"})}
	}
}

// spdxNode: a node inside the SPDX-representable class with each carried attribute present with probability p.
func spdxNode(r *rand.Rand, id string, p float64, sweep int) *sbom.Node {
	n := &sbom.Node{Id: id}
	if r.Intn(3) == 0 {
		n.Type = sbom.Node_FILE
		n.Name = txt(r)
		if maybe(r, p) {
			n.FileName = txt(r) // the dedicated field: a file's SPDX name is still Node.Name
		}
		spdxNoise(r, n, p)
		if maybe(r, p) {
			n.LicenseConcluded = pick(r, []string{"MIT", "Apache-2.0", "NOASSERTION"})
		}
		if maybe(r, p) {
			n.LicenseComments = txt(r)
		}
		if maybe(r, p) {
			n.Copyright = txt(r)
		}
		if maybe(r, p) {
			n.Hashes = hashesOver(r, spdxAlgos, sweep)
		}
		return n
	}
	if maybe(r, 0.9) {
		n.Name = txt(r)
	}
	for _, f := range []*string{&n.Version, &n.FileName, &n.UrlHome, &n.UrlDownload, &n.LicenseComments, &n.Copyright} {
		if maybe(r, p) {
			*f = txt(r)
		}
	}
	if r.Intn(12) == 0 {
		n.Version = pick(r, []string{"NOASSERTION", "NONE", "none", "0"}) // free text that merely looks like a keyword
	}
	if maybe(r, p) {
		n.LicenseConcluded = pick(r, []string{"MIT", "Apache-2.0", "NOASSERTION", "GPL-2.0-only WITH Classpath-exception-2.0"})
	}
	if maybe(r, p) {
		n.UrlDownload = pick(r, []string{"NOASSERTION", "https://example.com/dl.tgz"})
	}
	if maybe(r, p) {
		n.Hashes = hashesOver(r, spdxAlgos, sweep)
	}
	if maybe(r, p) {
		n.Identifiers = map[int32]string{}
		for _, k := range []int32{1, 2, 3, 4} {
			if r.Intn(2) == 0 || (sweep >= 0 && int32(sweep%4) == k-1) {
				n.Identifiers[k] = map[int32]string{1: "pkg:npm/left-pad@1.0.0", 2: "cpe:/a:vendor:prod:1.0", 3: "cpe:2.3:a:vendor:prod:1.0:*:*:*:*:*:*:*", 4: "gitoid:blob:sha256:abcd"}[k]
			}
		}
	}
	if maybe(r, p) {
		for i, m := 0, 1+r.Intn(2); i < m; i++ {
			t := pick(r, spdxNativeRefs)
			if sweep >= 0 && i == 0 {
				t = spdxNativeRefs[sweep%len(spdxNativeRefs)]
			}
			ref := &sbom.ExternalReference{Type: t, Url: "https://example.com/ref/" + fmt.Sprint(r.Intn(5))}
			if r.Intn(6) == 0 {
				ref.Url = "" // a reference without locator cannot be written: it alone is left out, nothing after it
			}
			if r.Intn(2) == 0 {
				ref.Comment = txt(r)
			}
			n.ExternalReferences = append(n.ExternalReferences, ref)
		}
	}
	if maybe(r, p) {
		pp := pick(r, spdxNativePurposes)
		if sweep >= 0 {
			pp = spdxNativePurposes[sweep%len(spdxNativePurposes)]
		}
		n.PrimaryPurpose = []sbom.Purpose{pp}
	}
	if maybe(r, p) {
		n.ReleaseDate = tsOf(r)
	}
	if maybe(r, p) {
		n.BuildDate = tsOf(r)
	}
	if maybe(r, p) {
		n.ValidUntilDate = tsOf(r)
	}
	if maybe(r, p) {
		n.Suppliers = []*sbom.Person{{Name: pick(r, []string{"ACME Inc", "Jane Doe", "Ünï Org", "ACME (UK) Ltd", "Smile Corp. :)", "Open (source"}), IsOrg: r.Intn(2) == 0}}
		if r.Intn(3) == 0 {
			n.Suppliers[0].Email = pick(r, []string{"sbom@acme.example", "jane.doe+sbom@example.org", "jane..doe@example.com", "a@b@c", "build.@acme.example"})
		}
	}
	spdxNoise(r, n, p)
	if maybe(r, p) {
		n.Originators = []*sbom.Person{{Name: pick(r, []string{"Upstream Project", "John Roe", "Project (Upstream) Team", "trailing)"}), IsOrg: r.Intn(2) == 0}}
		if r.Intn(3) == 0 {
			n.Originators[0].Email = "upstream@project.example"
		}
	}
	return n
}

func newDoc(r *rand.Rand) *sbom.Document {
	d := sbom.NewDocument()
	d.Metadata.Id = pick(r, []string{"urn:uuid:3e671687-395b-41f5-a30f-a58921a69b79", "urn:uuid:11111111-2222-3333-4444-555555555555",
		"urn:uuid:3e671687-395b-41f5-a30f-a58921a69b79", "urn:uuid:11111111-2222-3333-4444-555555555555",
		// the identifier is the caller's string: other spellings of a UUID and plain text are kept as they are
		"URN:UUID:3E671687-395B-41F5-A30F-A58921A69B79", "3e671687-395b-41f5-a30f-a58921a69b79", "{3e671687-395b-41f5-a30f-a58921a69b79}", "my-serial-7"})
	d.Metadata.Version = fmt.Sprint(1 + r.Intn(5))
	if r.Intn(6) == 0 {
		d.Metadata.Version = pick(r, []string{"9007199254740993", "2147483648", "9223372036854775807", "0"}) // beyond float64 / int32 exactness
	}
	if r.Intn(4) == 0 {
		// document-level metadata beyond the listed properties: observed, never judged as a violation
		d.Metadata.Comment = "document comment"
		d.Metadata.Date = tsOf(r)
		d.Metadata.Authors = []*sbom.Person{{Name: "Jane Author", Email: "jane@example.org"}, {Name: "Author Org", IsOrg: true}}
		d.Metadata.Tools = []*sbom.Tool{{Name: "toolA", Version: "1.2", Vendor: "V"}, {Name: "toolB"}}
	}
	return d
}

// genSPDXDoc: unique valid SPDX ids, closed edges and roots, every graph shape, all 44 edge types (sweep).
func genSPDXDoc(r *rand.Rand, i int) *sbom.Document {
	d := newDoc(r)
	if maybe(r, 0.5) {
		d.Metadata.Name = txt(r)
	}
	k := 1 + r.Intn(5)
	ids := []string{}
	for _, j := range r.Perm(len(spdxIDPool))[:k] {
		ids = append(ids, spdxIDPool[j])
	}
	p := []float64{0.1, 0.5, 0.9}[i%3]
	for _, id := range ids {
		d.NodeList.Nodes = append(d.NodeList.Nodes, spdxNode(r, id, p, i))
	}
	for j, m := 0, r.Intn(2*k+1); j < m; j++ {
		t := sbom.Edge_Type(1 + r.Intn(44))
		if j == 0 {
			t = sbom.Edge_Type(1 + i%44) // every relationship type appears
		}
		e := &sbom.Edge{Type: t, From: pick(r, ids)}
		for q, mm := 0, 1+r.Intn(3); q < mm; q++ {
			e.To = append(e.To, pick(r, ids))
		}
		d.NodeList.Edges = append(d.NodeList.Edges, e)
	}
	for _, id := range ids {
		if r.Intn(3) == 0 {
			d.NodeList.RootElements = append(d.NodeList.RootElements, id)
		}
	}
	return d
}

var cdxIDPool = []string{"root", "a", "b", "c", "d", "e", "pkg:npm/x@1", "urn:cdx:ref/2", "Ünï-ref", "ref with space", "pkg-automake--1.16", "lib-auto--2", "autoconf",
	// path-like identifiers whose concatenations coincide ("lib" + "/" + "core/util" = "lib/core" + "/" + "util")
	"lib", "core/util", "lib/core", "util",
	// identifiers made by the public generator from ordinary seeds are ordinary identifiers, also when the seed mentions "auto"
	sbom.NewNodeIdentifier("pkg:npm/autoprefixer"), sbom.NewNodeIdentifier("lib", "auto"), "protobom--x-auto--y"}

func cdxNode(r *rand.Rand, id string, p float64, v15 bool, sweep int) *sbom.Node {
	n := &sbom.Node{Id: id, Name: txt(r)}
	for _, f := range []*string{&n.Version, &n.Description, &n.Copyright} {
		if maybe(r, p) {
			*f = txt(r)
		}
	}
	if r.Intn(4) == 0 {
		n.Type = sbom.Node_FILE
		// a file may state what it is for: the kind has to survive whatever becomes of the purpose
		if v15 && r.Intn(3) == 0 {
			n.PrimaryPurpose = []sbom.Purpose{[]sbom.Purpose{sbom.Purpose_DATA, sbom.Purpose_MACHINE_LEARNING_MODEL, sbom.Purpose_FILE, sbom.Purpose_LIBRARY}[r.Intn(4)]}
		}
	} else if maybe(r, 0.8) {
		ps := cdx14Purposes
		if v15 {
			ps = cdx15Purposes
		}
		n.PrimaryPurpose = []sbom.Purpose{ps[(sweep+r.Intn(2)*3)%len(ps)]}
	}
	if maybe(r, p) {
		n.Hashes = hashesOver(r, cdxAlgos, sweep)
	}
	if maybe(r, p) {
		n.Identifiers = map[int32]string{}
		if r.Intn(2) == 0 {
			n.Identifiers[1] = "pkg:npm/left-pad@1.0.0"
		}
		switch r.Intn(4) {
		case 0:
			n.Identifiers[3] = "cpe:2.3:a:vendor:prod:1.0:*:*:*:*:*:*:*"
		case 1:
			n.Identifiers[2] = "cpe:/a:vendor:prod:1.0"
		case 2: // both: CycloneDX has one cpe field, the 2.3 form is the one carried
			n.Identifiers[3] = "cpe:2.3:a:vendor:prod:1.0:*:*:*:*:*:*:*"
			n.Identifiers[2] = "cpe:/a:vendor:prod:1.0"
		}
	}
	if maybe(r, p) {
		for i, m := 0, 1+r.Intn(3); i < m; i++ {
			n.Licenses = append(n.Licenses, pick(r, []string{"MIT", "Apache-2.0", "BSD-3-Clause", "MIT OR Apache-2.0"}))
		}
	}
	if maybe(r, p) {
		for i, m := 0, 1+r.Intn(2); i < m; i++ {
			ts := cdx14Refs
			if v15 && r.Intn(2) == 0 {
				ts = cdx15OnlyRefs
			}
			ref := &sbom.ExternalReference{Type: ts[(sweep+i*7+r.Intn(3))%len(ts)], Url: "https://example.com/ref/" + fmt.Sprint(r.Intn(5))}
			if r.Intn(2) == 0 {
				ref.Comment = txt(r)
			}
			if r.Intn(2) == 0 {
				ref.Hashes = hashesOver(r, cdxAlgos, sweep+i)
			}
			n.ExternalReferences = append(n.ExternalReferences, ref)
		}
	}
	return n
}

// genCDXDoc: one root, all other nodes in a containment tree under it (any depth / fan-out), the
// contains edges stored in random order and random grouping of targets.
func genCDXDoc(r *rand.Rand, i int, v15 bool) *sbom.Document {
	if i%120 == 119 {
		d := deepChain(r, 420)
		d.NodeList.Nodes[0].Id, d.NodeList.RootElements = "root", []string{"root"}
		for _, e := range d.NodeList.Edges {
			if e.From == "n0" {
				e.From = "root"
			}
		}
		return d
	}
	d := newDoc(r)
	if i%4 == 3 {
		d.Metadata.Name = txt(r)
	}
	k := 1 + r.Intn(6)
	ids := []string{"root"}
	for _, j := range r.Perm(len(cdxIDPool) - 1)[:k-1] {
		ids = append(ids, cdxIDPool[1+j])
	}
	p := []float64{0.1, 0.5, 0.9}[i%3]
	for _, id := range ids {
		d.NodeList.Nodes = append(d.NodeList.Nodes, cdxNode(r, id, p, v15, i))
	}
	r.Shuffle(len(d.NodeList.Nodes), func(a, b int) { d.NodeList.Nodes[a], d.NodeList.Nodes[b] = d.NodeList.Nodes[b], d.NodeList.Nodes[a] })
	d.NodeList.RootElements = []string{"root"}
	// random tree: parent of ids[j] is an earlier id (deep chains when mode says so)
	parent := map[string]string{}
	for j := 1; j < len(ids); j++ {
		switch i % 3 {
		case 0:
			parent[ids[j]] = ids[j-1] // chain: maximal depth
		case 1:
			parent[ids[j]] = ids[r.Intn(j)]
		default:
			parent[ids[j]] = ids[0] // flat
		}
	}
	if i%10 == 9 {
		// identifiers that are paths of one another: the links lib > core/util and lib/core > util must stay two links
		ids = []string{"root", "lib", "core/util", "lib/core", "util"}
		d.NodeList.Nodes = nil
		for _, id := range ids {
			d.NodeList.Nodes = append(d.NodeList.Nodes, cdxNode(r, id, p, v15, i))
		}
		r.Shuffle(len(d.NodeList.Nodes), func(a, b int) { d.NodeList.Nodes[a], d.NodeList.Nodes[b] = d.NodeList.Nodes[b], d.NodeList.Nodes[a] })
		parent = map[string]string{"lib": "root", "core/util": "lib", "lib/core": "root", "util": "lib/core"}
	}
	// edges: one edge per target or grouped per parent, then shuffled
	byParent := map[string][]string{}
	for c, pa := range parent {
		byParent[pa] = append(byParent[pa], c)
	}
	for _, pa := range ids { // deterministic iteration
		cs := byParent[pa]
		if len(cs) == 0 {
			continue
		}
		if r.Intn(2) == 0 {
			d.NodeList.Edges = append(d.NodeList.Edges, &sbom.Edge{Type: sbom.Edge_contains, From: pa, To: cs})
		} else {
			for _, c := range cs {
				d.NodeList.Edges = append(d.NodeList.Edges, &sbom.Edge{Type: sbom.Edge_contains, From: pa, To: []string{c}})
			}
		}
	}
	r.Shuffle(len(d.NodeList.Edges), func(a, b int) { d.NodeList.Edges[a], d.NodeList.Edges[b] = d.NodeList.Edges[b], d.NodeList.Edges[a] })
	if v15 && maybe(r, 0.6) {
		for q, m := 0, 1+r.Intn(2); q < m; q++ {
			t := sbom.DocumentType_SBOMType(1 + (i+q)%5)
			if (i+q)%7 == 5 {
				t = sbom.DocumentType_DISCOVERY
			}
			if (i+q)%7 == 6 {
				t = sbom.DocumentType_DECOMISSION
			}
			dt := &sbom.DocumentType{Type: t.Enum()}
			if (i+q)%3 == 0 { // a typed entry may carry a description as well: the type is what must survive
				desc := "described " + fmt.Sprint(q)
				dt.Description = &desc
			}
			d.Metadata.DocumentTypes = append(d.Metadata.DocumentTypes, dt)
		}
	}
	return d
}

// genFreeDoc: arbitrary well-formed documents outside the round-trippable classes: several purposes,
// dependency edges between arbitrary nodes, DAG and cyclic shapes, several or no roots.
// deepChain: a containment chain far deeper than anything a generator produces by chance (nesting limits, recursion).
func deepChain(r *rand.Rand, depth int) *sbom.Document {
	d := newDoc(r)
	for k := 0; k < depth; k++ {
		d.NodeList.Nodes = append(d.NodeList.Nodes, &sbom.Node{Id: fmt.Sprintf("n%d", k), Name: fmt.Sprintf("level %d", k), Version: "1"})
		if k > 0 {
			d.NodeList.Edges = append(d.NodeList.Edges, &sbom.Edge{Type: sbom.Edge_contains, From: fmt.Sprintf("n%d", k-1), To: []string{fmt.Sprintf("n%d", k)}})
		}
	}
	r.Shuffle(len(d.NodeList.Edges), func(a, b int) { d.NodeList.Edges[a], d.NodeList.Edges[b] = d.NodeList.Edges[b], d.NodeList.Edges[a] })
	d.NodeList.RootElements = []string{"n0"}
	return d
}

func genFreeDoc(r *rand.Rand, i int) *sbom.Document {
	if i%60 == 59 {
		return deepChain(r, 420)
	}
	d := newDoc(r)
	if maybe(r, 0.5) {
		d.Metadata.Name = txt(r)
	}
	k := 1 + r.Intn(6)
	ids := []string{}
	for _, j := range r.Perm(len(spdxIDPool))[:k] {
		ids = append(ids, spdxIDPool[j])
	}
	for _, id := range ids {
		n := spdxNode(r, id, 0.4, i)
		if r.Intn(3) == 0 && n.Type == sbom.Node_PACKAGE {
			n.PrimaryPurpose = []sbom.Purpose{sbom.Purpose(1 + r.Intn(28)), sbom.Purpose(1 + r.Intn(28))}
		}
		if r.Intn(4) == 0 {
			n.Licenses = []string{"MIT", "Apache-2.0"}
		}
		d.NodeList.Nodes = append(d.NodeList.Nodes, n)
	}
	types := []sbom.Edge_Type{sbom.Edge_contains, sbom.Edge_dependsOn, sbom.Edge_other, sbom.Edge_contains, sbom.Edge_dependsOn}
	seen := map[string]bool{}
	for j, m := 0, r.Intn(2*k+2); j < m; j++ {
		e := &sbom.Edge{Type: pick(r, types), From: pick(r, ids)}
		key := fmt.Sprint(e.From, e.Type)
		if seen[key] && i%2 == 0 { // every other document also has several edges per source and type, interleaved with others
			continue
		}
		seen[key] = true
		for q, mm := 0, 1+r.Intn(3); q < mm; q++ {
			e.To = append(e.To, pick(r, ids))
		}
		d.NodeList.Edges = append(d.NodeList.Edges, e)
	}
	switch r.Intn(5) {
	case 0: // no root
	case 1: // several roots
		d.NodeList.RootElements = append([]string{}, ids[:min(2, len(ids))]...)
	default:
		d.NodeList.RootElements = []string{ids[0]}
	}
	return d
}

// subDocument samples a sub-graph of a parsed fixture: up to n nodes around a random start, induced edges.
func subDocument(r *rand.Rand, doc *sbom.Document, n int) *sbom.Document {
	nl := doc.NodeList
	if len(nl.Nodes) == 0 {
		return doc
	}
	keep := map[string]bool{}
	order := []string{}
	add := func(id string) {
		if !keep[id] && nl.GetNodeByID(id) != nil {
			keep[id] = true
			order = append(order, id)
		}
	}
	for _, id := range nl.RootElements {
		add(id)
	}
	for len(order) < n && len(order) < len(nl.Nodes) {
		add(nl.Nodes[r.Intn(len(nl.Nodes))].Id)
		for _, e := range nl.Edges {
			if keep[e.From] && len(order) < n && r.Intn(3) == 0 {
				for _, to := range e.To {
					if len(order) < n {
						add(to)
					}
				}
			}
		}
	}
	out := &sbom.Document{Metadata: doc.Metadata, NodeList: &sbom.NodeList{}}
	for _, node := range nl.Nodes {
		if keep[node.Id] {
			out.NodeList.Nodes = append(out.NodeList.Nodes, node)
		}
	}
	for _, e := range nl.Edges {
		if !keep[e.From] {
			continue
		}
		ne := &sbom.Edge{Type: e.Type, From: e.From}
		for _, to := range e.To {
			if keep[to] {
				ne.To = append(ne.To, to)
			}
		}
		if len(ne.To) > 0 {
			out.NodeList.Edges = append(out.NodeList.Edges, ne)
		}
	}
	for _, id := range nl.RootElements {
		if keep[id] {
			out.NodeList.RootElements = append(out.NodeList.RootElements, id)
		}
	}
	return out
}

func hasPrefixAny(s string, ps ...string) bool {
	for _, p := range ps {
		if strings.HasPrefix(s, p) {
			return true
		}
	}
	return false
}
