package main

import (
	"bytes"
	"encoding/json"
	"errors"
	"flag"
	"fmt"
	"math/rand"
	"os"
	"os/exec"
	"path/filepath"
	"runtime"
	"strings"
	"syscall"
	"time"

	"github.com/protobom/protobom/pkg/formats"
	"github.com/protobom/protobom/pkg/native"
	"github.com/protobom/protobom/pkg/reader"
	"github.com/protobom/protobom/pkg/sbom"
	"github.com/protobom/protobom/pkg/writer"
	"verifharness/proj"
)

func init() { commands["tr-run"] = trRun }

var trFormats = map[string]formats.Format{
	"spdx23": formats.SPDX23JSON, "cdx10": formats.CDX10JSON, "cdx11": formats.CDX11JSON, "cdx12": formats.CDX12JSON,
	"cdx13": formats.CDX13JSON, "cdx14": formats.CDX14JSON, "cdx15": formats.CDX15JSON,
}

// guarded runs f with panic recovery and a deadline; kind is ok | panic | hang.
func guarded(deadline time.Duration, f func()) (kind, text string) {
	done := make(chan [2]string, 1)
	go func() {
		defer func() {
			if r := recover(); r != nil {
				done <- [2]string{"panic", fmt.Sprint(r) + " @ " + panicSite()}
				return
			}
			done <- [2]string{"ok", ""}
		}()
		f()
	}()
	select {
	case r := <-done:
		return r[0], r[1]
	case <-time.After(deadline):
		leaked = true // the goroutine is still running: this process must not go on to further cases
		return "hang", ""
	}
}

// panicSite names the first protobom frame on the panicking stack.
func panicSite() string {
	pcs := make([]uintptr, 40)
	n := runtime.Callers(3, pcs)
	frames := runtime.CallersFrames(pcs[:n])
	for {
		f, more := frames.Next()
		if strings.Contains(f.Function, "protobom/protobom") {
			return fmt.Sprintf("%s:%d", filepath.Base(f.File), f.Line)
		}
		if !more {
			return "?"
		}
	}
}

// writeDoc serializes with the real writer; outcome kind: ok | err | panic | hang.
func writeDoc(doc *sbom.Document, f formats.Format, indent int) (out []byte, kind, text string) {
	var buf bytes.Buffer
	var err error
	kind, text = guarded(20*time.Second, func() {
		w := writer.New()
		err = w.WriteStreamWithOptions(doc, nopCloser{&buf}, &writer.Options{Format: f, RenderOptions: &native.RenderOptions{Indent: indent}})
	})
	if kind == "ok" && err != nil {
		return nil, "err", err.Error()
	}
	return buf.Bytes(), kind, text
}

// readDoc parses with the real reader; format "" = auto detection.
func readDoc(data []byte, f formats.Format) (doc *sbom.Document, kind, text string) {
	var err error
	kind, text = guarded(20*time.Second, func() {
		r := reader.New()
		if f == "" {
			doc, err = r.ParseStream(bytes.NewReader(data))
		} else {
			doc, err = r.ParseStreamWithOptions(bytes.NewReader(data), &reader.Options{Format: f})
		}
	})
	switch {
	case kind != "ok":
		return nil, kind, text
	case err != nil && doc != nil:
		return doc, "both", err.Error()
	case err != nil:
		return nil, "err", err.Error()
	case doc == nil:
		return nil, "neither", ""
	}
	return doc, "ok", ""
}

// ---------------------------------------------------------------------------
// independent decoding of writer output (encoding/json only)

func stripRef(s string) string { return strings.TrimPrefix(s, "SPDXRef-") }

func decodeSPDXWire(data []byte) map[string]any {
	var top map[string]any
	if json.Unmarshal(data, &top) != nil {
		return map[string]any{"bad": true}
	}
	ids, kinds, rels := []any{}, []any{}, []any{}
	arr := func(k string) []any { a, _ := top[k].([]any); return a }
	for _, p := range arr("packages") {
		m, _ := p.(map[string]any)
		ids = append(ids, stripRef(str(m, "SPDXID")))
		kinds = append(kinds, []any{stripRef(str(m, "SPDXID")), 0})
	}
	for _, p := range arr("files") {
		m, _ := p.(map[string]any)
		ids = append(ids, stripRef(str(m, "SPDXID")))
		kinds = append(kinds, []any{stripRef(str(m, "SPDXID")), 1})
	}
	for _, p := range arr("relationships") {
		m, _ := p.(map[string]any)
		rels = append(rels, []any{stripRef(str(m, "spdxElementId")), str(m, "relationshipType"), stripRef(str(m, "relatedSpdxElement"))})
	}
	return map[string]any{"ids": ids, "kinds": kinds, "rels": rels, "decl": str(top, "spdxVersion")}
}

func decodeCDXWire(data []byte) map[string]any {
	var top map[string]any
	if json.Unmarshal(data, &top) != nil {
		return map[string]any{"bad": true}
	}
	ids, nest, deps := []any{}, []any{}, []any{}
	var walk func(parent string, comps []any)
	walk = func(parent string, comps []any) {
		for _, c := range comps {
			m, _ := c.(map[string]any)
			ref := str(m, "bom-ref")
			ids = append(ids, ref)
			nest = append(nest, []any{parent, ref})
			sub, _ := m["components"].([]any)
			walk(ref, sub)
		}
	}
	root := ""
	if md, ok := top["metadata"].(map[string]any); ok {
		if mc, ok := md["component"].(map[string]any); ok {
			root = str(mc, "bom-ref")
			ids = append(ids, root)
			sub, _ := mc["components"].([]any)
			walk(root, sub)
		}
	}
	comps, _ := top["components"].([]any)
	walk(root, comps)
	darr, _ := top["dependencies"].([]any)
	for _, d := range darr {
		m, _ := d.(map[string]any)
		on, _ := m["dependsOn"].([]any)
		for _, o := range on {
			s, _ := o.(string)
			deps = append(deps, []any{str(m, "ref"), s})
		}
		if len(on) == 0 {
			deps = append(deps, []any{str(m, "ref"), ""})
		}
	}
	return map[string]any{"ids": ids, "root": root, "nest": nest, "deps": deps, "decl": str(top, "specVersion"), "serial": str(top, "serialNumber")}
}

func decodeWire(fname string, data []byte) map[string]any {
	if fname == "spdx23" {
		return decodeSPDXWire(data)
	}
	return decodeCDXWire(data)
}

func outcome(kind, text string) map[string]any {
	if len(text) > 200 {
		text = text[:200]
	}
	return map[string]any{"kind": kind, "text": text}
}

// roundTrip performs write, independent decode, read, write, read and logs everything.
func roundTrip(w *ndWriter, sid *int, doc *sbom.Document, fname string, indent int, cls, src string) {
	*sid++
	ev := map[string]any{"op": "RT", "sid": *sid, "fmt": fname, "indent": indent, "cls": cls, "src": src, "doc": proj.Doc(doc)}
	// derived fact about identifier strings: which carry the reserved prefix of reader-generated references
	auto := []any{}
	if doc != nil && doc.NodeList != nil {
		for _, n := range doc.NodeList.Nodes {
			if n != nil && strings.HasPrefix(n.Id, "protobom-auto--") {
				auto = append(auto, n.Id)
			}
		}
	}
	ev["auto"] = auto
	// derived fact: the copyright texts that have white space at either end, stripped (the SPDX serializer strips them)
	crtrim := map[string]any{}
	if doc != nil && doc.NodeList != nil {
		for _, n := range doc.NodeList.Nodes {
			if n != nil && strings.TrimSpace(n.Copyright) != n.Copyright {
				crtrim[n.Id] = strings.TrimSpace(n.Copyright)
			}
		}
	}
	if len(crtrim) > 0 {
		ev["crtrim"] = crtrim
	}
	// the representable classes are read back with auto-detection (as the properties say); any other
	// pipeline states the format, so that C03 does not depend on which versions detection knows (C06)
	rf := trFormats[fname]
	if cls != "" {
		rf = ""
	}
	nilDoc := map[string]any{"nil": true}
	ev["wire"], ev["doc1"], ev["doc2"] = map[string]any{"bad": true}, nilDoc, nilDoc
	ev["w1"], ev["r1"], ev["w2"], ev["r2"] = outcome("skip", ""), outcome("skip", ""), outcome("skip", ""), outcome("skip", "")
	if *sid <= skipCases {
		return // already executed by an earlier child process
	}
	// write-ahead journal: if the process dies inside this case the parent turns this line into the event
	ev["op"] = "RT-begin"
	w.write(ev)
	w.flush()
	ev["op"] = "RT"
	defer func() { w.write(ev); w.flush(); exitIfLeaked(w) }()
	out, k, t := writeDoc(doc, trFormats[fname], indent)
	ev["w1"] = outcome(k, t)
	if k != "ok" {
		return
	}
	ev["wire"] = decodeWire(fname, out)
	// a destination that stops accepting bytes: the write must not report success (the output there is incomplete)
	if *sid%5 == 0 {
		swallowed := []any{}
		for _, capacity := range []int{0, 1, len(out) / 2, len(out) - 1} {
			lw := &limitedWriter{left: capacity}
			var werr error
			kk, _ := guarded(20*time.Second, func() {
				werr = writer.New().WriteStreamWithOptions(doc, lw, &writer.Options{Format: trFormats[fname], RenderOptions: &native.RenderOptions{Indent: indent}})
			})
			if kk == "ok" && werr == nil {
				swallowed = append(swallowed, capacity)
			}
		}
		ev["swallowed"] = swallowed
	}
	d1, k, t := readDoc(out, rf)
	ev["r1"] = outcome(k, t)
	if k != "ok" {
		return
	}
	ev["doc1"] = proj.Doc(d1)
	ev["file"] = fileAPI(doc, trFormats[fname], indent, rf, out, d1)
	out2, k, t := writeDoc(d1, trFormats[fname], indent)
	ev["w2"] = outcome(k, t)
	if k != "ok" {
		return
	}
	d2, k, t := readDoc(out2, rf)
	ev["r2"] = outcome(k, t)
	if k == "ok" {
		ev["doc2"] = proj.Doc(d2)
	}
}

// limitedWriter accepts a fixed number of bytes and then fails, like a full disk or a closed pipe.
type limitedWriter struct{ left int }

func (l *limitedWriter) Write(p []byte) (int, error) {
	if len(p) <= l.left {
		l.left -= len(p)
		return len(p), nil
	}
	n := l.left
	l.left = 0
	return n, errors.New("verif: destination full")
}

func (l *limitedWriter) Close() error { return nil }

// fileAPI repeats the write and the read through the path-taking entry points (WriteFile, ParseFile) and reports
// whether they agree with the stream entry points: "same" | "write-differs" | "read-differs" | "<outcome kind>".
func fileAPI(doc *sbom.Document, f formats.Format, indent int, rf formats.Format, streamOut []byte, streamDoc *sbom.Document) string {
	dir, err := os.MkdirTemp("", "vh-file-")
	if err != nil {
		return "skip"
	}
	defer os.RemoveAll(dir)
	path := filepath.Join(dir, "sbom.json")
	var werr error
	k, _ := guarded(20*time.Second, func() {
		w := writer.New(writer.WithFormat(f), writer.WithRenderOptions(&native.RenderOptions{Indent: indent}))
		werr = w.WriteFile(doc, path)
	})
	if k != "ok" {
		return "write-" + k
	}
	if werr != nil {
		return "write-err"
	}
	data, _ := os.ReadFile(path)
	if normalise(data) != normalise(streamOut) {
		return "write-differs"
	}
	var d2 *sbom.Document
	var rerr error
	k, _ = guarded(20*time.Second, func() {
		if rf == "" {
			d2, rerr = reader.New().ParseFile(path)
		} else {
			d2, rerr = reader.New().ParseFileWithOptions(path, &reader.Options{Format: rf})
		}
	})
	if k != "ok" {
		return "read-" + k
	}
	if rerr != nil || d2 == nil {
		return "read-err"
	}
	if canon(proj.NodeList(d2.NodeList)) != canon(proj.NodeList(streamDoc.NodeList)) {
		return "read-differs"
	}
	return "same"
}

func fixturePaths() []string {
	repo := os.Getenv("VERIF_REPO")
	if repo == "" {
		repo = "/repo"
	}
	return []string{
		filepath.Join(repo, "test/conformance/testdata/cyclonedx/1.4/json/bom-1.4.json"),
		filepath.Join(repo, "test/conformance/testdata/cyclonedx/1.5/json/bom-1.5.json"),
		filepath.Join(repo, "test/conformance/testdata/spdx/2.3/json/bom-v0.4.1_cirros-0.4.0.spdx.json"),
		filepath.Join(repo, "examples/curl.spdx.json"),
		filepath.Join(repo, "examples/vt.spdx.json"),
		filepath.Join(repo, "test/conformance/testdata/cyclonedx/1.4/json/juice-shop-11.1.2.cdx.json"),
		filepath.Join(repo, "test/conformance/testdata/spdx/2.3/json/trivy-0.42.1_mageia-5.1.spdx.json"),
	}
}

var skipCases int

// leaked is set when a guarded call outlived its deadline; an isolated child then ends itself after logging
// the case, and the parent restarts a fresh child for the remaining cases.
var leaked bool

func exitIfLeaked(w *ndWriter) {
	if leaked {
		w.flush()
		os.Exit(3)
	}
}

// capChildMemory bounds the address space of an isolated child so that a run-away allocation ends as an
// observable "exit" of that child and not as memory pressure on the whole machine.
func capChildMemory() {
	if os.Getenv("VH_MEMLIMIT") == "" {
		return
	}
	lim := &syscall.Rlimit{Cur: 6 << 30, Max: 6 << 30}
	_ = syscall.Setrlimit(syscall.RLIMIT_AS, lim)
}

// isolate re-runs the current command in child processes so that a runtime abort, os.Exit or hang inside
// one case is attributed to that case (outcome kind "exit") and the remaining cases still run.
func isolate(name string, args []string, out string) error {
	self, _ := os.Executable()
	final, err := newNDWriter(out)
	if err != nil {
		return err
	}
	defer final.close()
	skip, hangs := 0, 0
	for attempt := 0; attempt < 200; attempt++ {
		part := fmt.Sprintf("%s.part%d", out, attempt)
		argv := append([]string{name}, args...)
		argv = append(argv, "--child", "--skip", fmt.Sprint(skip), "--out", part)
		cmd := exec.Command(self, argv...)
		cmd.Env = append(os.Environ(), "VH_MEMLIMIT=1") // the child caps its own address space (capChildMemory)
		done := make(chan error, 1)
		if err := cmd.Start(); err != nil {
			return err
		}
		go func() { done <- cmd.Wait() }()
		var werr error
		select {
		case werr = <-done:
		case <-time.After(30 * time.Minute):
			cmd.Process.Kill()
			werr = fmt.Errorf("timeout")
			<-done
		}
		var pending map[string]any
		last := skip
		readND(part, func(ev map[string]any) error {
			if strings.HasSuffix(str(ev, "op"), "-begin") {
				pending = ev
				return nil
			}
			pending = nil
			if n := integer(ev, "sid"); n > last {
				last = n
			}
			final.write(ev)
			return nil
		})
		os.Remove(part)
		if werr == nil {
			return nil
		}
		if pending == nil {
			// the child ended between cases (deliberately after a hang, or killed by what a hung call left behind):
			// continue after the last completed case, unless there was no progress at all
			if last > skip {
				skip = last
				// every hang costs a deadline and a restart: after a few of them the point is made (each is a verdict of its
				// own), the rest of this shard is left out
				if hangs++; hangs >= 4 {
					return nil
				}
				continue
			}
			return fmt.Errorf("child failed outside a case without progress: %v", werr)
		}
		pending["op"] = strings.TrimSuffix(str(pending, "op"), "-begin")
		pending["w1"] = outcome("exit", werr.Error())   // RT events
		pending["o"] = outcome("exit", werr.Error())    // SER events
		pending["died"] = outcome("exit", werr.Error()) // PF and other events
		final.write(pending)
		skip = integer(pending, "sid")
	}
	return fmt.Errorf("too many child restarts")
}

func trRun(args []string) error {
	fs := flag.NewFlagSet("tr-run", flag.ExitOnError)
	child := fs.Bool("child", false, "run in this process (internal)")
	fs.IntVar(&skipCases, "skip", 0, "cases already executed (internal)")
	out := fs.String("out", "", "trace file")
	seed := fs.Int64("seed", 1, "seed")
	n := fs.Int("n", 50, "documents")
	mode := fs.String("mode", "spdx", "spdx | cdx | free | fixtures | trees")
	scripts := fs.String("scripts", "", "trees mode: (tree, stored edge order) pairs exported by TLC from TrCDX.tla")
	replay := fs.String("replay", "", "replay file")
	fs.Parse(args)
	if !*child {
		var pass []string
		for i := 0; i < len(args); i++ {
			if args[i] == "--out" || args[i] == "-out" {
				i++
				continue
			}
			pass = append(pass, args[i])
		}
		return isolate("tr-run", pass, *out)
	}
	capChildMemory()
	w, err := newNDWriter(*out)
	if err != nil {
		return err
	}
	defer w.close()
	sid := 0
	if *replay != "" {
		return readND(*replay, func(ev map[string]any) error {
			if str(ev, "op") == "RT" {
				roundTrip(w, &sid, proj.ToDoc(obj(ev, "doc")), str(ev, "fmt"), integer(ev, "indent"), str(ev, "cls"), str(ev, "src"))
			}
			return nil
		})
	}
	r := rand.New(rand.NewSource(*seed))
	indents := []int{0, 1, 4, 8}
	switch *mode {
	case "spdx":
		// the enum tables the SPDX translators are built on, every value both ways
		tab := map[string]any{"op": "TABLES", "sid": 0}
		edges, hashes, idts := []any{}, []any{}, []any{}
		for n := 0; n <= 46; n++ {
			name := sbom.Edge_Type(n).ToSPDX2()
			edges = append(edges, []any{n, name, int(sbom.EdgeTypeFromSPDX2(name)), int(sbom.EdgeTypeFromSPDX2(strings.ToLower(name))), int(sbom.EdgeTypeFromSPDX(name))})
		}
		for n := 0; n <= 19; n++ {
			name := string(sbom.HashAlgorithm(n).ToSPDX())
			hashes = append(hashes, []any{n, name, int(sbom.HashAlgorithmFromSPDX(sbom.HashAlgorithm(n).ToSPDX()))})
		}
		for n := 0; n <= 5; n++ {
			t := sbom.SoftwareIdentifierType(n)
			idts = append(idts, []any{n, t.ToSPDX2Type(), t.ToSPDX2Category(), int(sbom.SoftwareIdentifierTypeFromString(t.ToSPDX2Type()))})
		}
		tab["edges"], tab["hashes"], tab["idtypes"] = edges, hashes, idts
		w.write(tab)
		for i := 0; i < *n; i++ {
			roundTrip(w, &sid, genSPDXDoc(r, i), "spdx23", indents[i%4], "spdx", "gen")
		}
	case "cdx":
		for i := 0; i < *n; i++ {
			v15 := i%2 == 0
			f := "cdx14"
			if v15 {
				f = "cdx15"
			}
			roundTrip(w, &sid, genCDXDoc(r, i, v15), f, indents[i%4], f, "gen")
		}
	case "free":
		for i := 0; i < *n; i++ {
			d := genFreeDoc(r, i)
			for _, f := range []string{"spdx23", "cdx14", "cdx15"} {
				roundTrip(w, &sid, d, f, 2, "", "gen")
			}
			if i%5 == 0 {
				for _, f := range []string{"cdx10", "cdx11", "cdx12", "cdx13"} {
					roundTrip(w, &sid, d, f, 2, "", "gen")
				}
			}
		}
	case "trees":
		// EVERY labelled tree on the exported node count in EVERY stored order of its contains edges; the attributes,
		// the order of the node list, the grouping of consecutive same-parent targets and the version are seeded
		i := 0
		err := readND(*scripts, func(ev map[string]any) error {
			if str(ev, "op") != "Tree" {
				return nil
			}
			i++
			v15 := i%2 == 0
			f := "cdx14"
			if v15 {
				f = "cdx15"
			}
			ids := append([]string{"root"}, cdxIDPool[1:]...)
			d := newDoc(r)
			for k := 0; k <= integer(ev, "n"); k++ {
				d.NodeList.Nodes = append(d.NodeList.Nodes, cdxNode(r, ids[k], 0.3, v15, i))
			}
			r.Shuffle(len(d.NodeList.Nodes), func(a, b int) { d.NodeList.Nodes[a], d.NodeList.Nodes[b] = d.NodeList.Nodes[b], d.NodeList.Nodes[a] })
			d.NodeList.RootElements = []string{"root"}
			group := i%3 == 0
			order, _ := ev["order"].([]any)
			for _, pr := range order {
				pair, _ := pr.([]any)
				from, to := ids[int(pair[0].(float64))], ids[int(pair[1].(float64))]
				es := d.NodeList.Edges
				if group && len(es) > 0 && es[len(es)-1].From == from {
					es[len(es)-1].To = append(es[len(es)-1].To, to)
					continue
				}
				d.NodeList.Edges = append(d.NodeList.Edges, &sbom.Edge{Type: sbom.Edge_contains, From: from, To: []string{to}})
			}
			roundTrip(w, &sid, d, f, indents[i%4], f, "tlc-tree")
			return nil
		})
		if err != nil {
			return err
		}
	case "fixtures":
		for i := 0; i < *n; i++ {
			p := fixturePaths()[i%len(fixturePaths())]
			data, err := os.ReadFile(p)
			if err != nil {
				continue
			}
			doc, k, _ := readDoc(data, "")
			if k != "ok" {
				continue
			}
			sub := subDocument(r, doc, 4+r.Intn(20))
			for _, f := range []string{"spdx23", "cdx14", "cdx15"} {
				roundTrip(w, &sid, sub, f, 2, "", "fixture:"+filepath.Base(p))
			}
		}
	}
	return nil
}
