// Package proj maps protobom values to the JSON values the TLA+ trace
// specifications read (DESIGN.md section 4) and back.
//
// Messages are projected sparsely: a field is present iff it is non-empty
// (proto3 presence for scalars, length > 0 for lists and maps, non-nil for
// messages).  A few identity fields are always present so that no message
// projects to an empty object.  The projection is driven by the live protobuf
// descriptors, so fields added to the schema later are covered.
package proj

import (
	"fmt"
	"sort"
	"strconv"

	"github.com/protobom/protobom/pkg/sbom"
	"google.golang.org/protobuf/reflect/protoreflect"
	"google.golang.org/protobuf/types/known/timestamppb"
)

// always lists, per message, the fields that are projected even when empty.
var always = map[string]map[string]bool{
	"Node":              {"id": true, "type": true},
	"Edge":              {"type": true, "from": true, "to": true},
	"NodeList":          {"nodes": true, "edges": true, "root_elements": true},
	"Person":            {"name": true},
	"ExternalReference": {"type": true},
	"Tool":              {"name": true},
	"Metadata":          {"id": true},
}

// Key returns the JSON key used for a field.
func Key(fd protoreflect.FieldDescriptor) string {
	if fd.Parent().Name() == "NodeList" && fd.Name() == "root_elements" {
		return "roots"
	}
	return string(fd.Name())
}

func tsVal(m protoreflect.Message) map[string]any {
	ts := m.Interface().(*timestamppb.Timestamp)
	return map[string]any{"sec": strconv.FormatInt(ts.GetSeconds(), 10), "nanos": int(ts.GetNanos())}
}

func scalar(fd protoreflect.FieldDescriptor, v protoreflect.Value) any {
	switch fd.Kind() {
	case protoreflect.StringKind:
		return v.String()
	case protoreflect.BoolKind:
		return v.Bool()
	case protoreflect.EnumKind:
		return int(v.Enum())
	case protoreflect.Int32Kind, protoreflect.Int64Kind, protoreflect.Sint32Kind, protoreflect.Sint64Kind:
		return int(v.Int())
	case protoreflect.MessageKind:
		return Msg(v.Message())
	default:
		return fmt.Sprint(v.Interface())
	}
}

// Msg projects a message.  A nil (invalid) message projects to {"nil": true}.
func Msg(m protoreflect.Message) map[string]any {
	if !m.IsValid() {
		return map[string]any{"nil": true}
	}
	md := m.Descriptor()
	if md.FullName() == "google.protobuf.Timestamp" {
		return tsVal(m)
	}
	out := map[string]any{}
	alw := always[string(md.Name())]
	fds := md.Fields()
	for i := 0; i < fds.Len(); i++ {
		fd := fds.Get(i)
		key := Key(fd)
		switch {
		case fd.IsMap():
			mp := m.Get(fd).Map()
			if mp.Len() == 0 && !alw[string(fd.Name())] {
				continue
			}
			type kv struct {
				k int64
				s string
				v any
			}
			var kvs []kv
			mp.Range(func(k protoreflect.MapKey, v protoreflect.Value) bool {
				e := kv{v: scalar(fd.MapValue(), v)}
				if fd.MapKey().Kind() == protoreflect.StringKind {
					e.s = k.String()
				} else {
					e.k = k.Int()
				}
				kvs = append(kvs, e)
				return true
			})
			sort.Slice(kvs, func(a, b int) bool {
				if kvs[a].k != kvs[b].k {
					return kvs[a].k < kvs[b].k
				}
				return kvs[a].s < kvs[b].s
			})
			arr := []any{}
			for _, e := range kvs {
				if fd.MapKey().Kind() == protoreflect.StringKind {
					arr = append(arr, []any{e.s, e.v})
				} else {
					arr = append(arr, []any{int(e.k), e.v})
				}
			}
			out[key] = arr
		case fd.IsList():
			l := m.Get(fd).List()
			if l.Len() == 0 && !alw[string(fd.Name())] {
				continue
			}
			arr := []any{}
			for j := 0; j < l.Len(); j++ {
				arr = append(arr, scalar(fd, l.Get(j)))
			}
			out[key] = arr
		case fd.Kind() == protoreflect.MessageKind:
			if !m.Has(fd) {
				continue
			}
			out[key] = Msg(m.Get(fd).Message())
		default:
			if !m.Has(fd) && !alw[string(fd.Name())] {
				continue
			}
			out[key] = scalar(fd, m.Get(fd))
		}
	}
	if md.Name() == "DocumentType" {
		// proto3 optional fields: presence is explicit, keep the record non-empty
		out["tag"] = "dt"
	}
	if md.Name() == "Document" {
		out["tag"] = "doc"
	}
	return out
}

// NodeList projects a possibly nil node list.
func NodeList(nl *sbom.NodeList) map[string]any {
	if nl == nil {
		return map[string]any{"nil": true}
	}
	return Msg(nl.ProtoReflect())
}

// Node projects a possibly nil node.
func Node(n *sbom.Node) map[string]any {
	if n == nil {
		return map[string]any{"nil": true}
	}
	return Msg(n.ProtoReflect())
}

// Edge projects a possibly nil edge.
func Edge(e *sbom.Edge) map[string]any {
	if e == nil {
		return map[string]any{"nil": true}
	}
	return Msg(e.ProtoReflect())
}

// Nodes projects a slice of nodes.
func Nodes(ns []*sbom.Node) []any {
	out := []any{}
	for _, n := range ns {
		out = append(out, Node(n))
	}
	return out
}

// Doc projects a possibly nil document.
func Doc(d *sbom.Document) map[string]any {
	if d == nil {
		return map[string]any{"nil": true}
	}
	return Msg(d.ProtoReflect())
}

// ---------------------------------------------------------------------------
// inverse direction: JSON value (as decoded by encoding/json) -> message

func num(v any) int64 {
	switch x := v.(type) {
	case float64:
		return int64(x)
	case int:
		return int64(x)
	case int64:
		return x
	case string:
		n, _ := strconv.ParseInt(x, 10, 64)
		return n
	}
	return 0
}

func unscalar(fd protoreflect.FieldDescriptor, v any, newMsg func() protoreflect.Message) protoreflect.Value {
	switch fd.Kind() {
	case protoreflect.StringKind:
		s, _ := v.(string)
		return protoreflect.ValueOfString(s)
	case protoreflect.BoolKind:
		b, _ := v.(bool)
		return protoreflect.ValueOfBool(b)
	case protoreflect.EnumKind:
		return protoreflect.ValueOfEnum(protoreflect.EnumNumber(num(v)))
	case protoreflect.Int32Kind, protoreflect.Sint32Kind:
		return protoreflect.ValueOfInt32(int32(num(v)))
	case protoreflect.Int64Kind, protoreflect.Sint64Kind:
		return protoreflect.ValueOfInt64(num(v))
	case protoreflect.MessageKind:
		m := newMsg()
		if mm, ok := v.(map[string]any); ok {
			Fill(m, mm)
		}
		return protoreflect.ValueOfMessage(m)
	}
	return protoreflect.Value{}
}

// Fill sets the fields of m from a projected value.
func Fill(m protoreflect.Message, v map[string]any) {
	md := m.Descriptor()
	if md.FullName() == "google.protobuf.Timestamp" {
		ts := m.Interface().(*timestamppb.Timestamp)
		ts.Seconds = num(v["sec"])
		ts.Nanos = int32(num(v["nanos"]))
		return
	}
	fds := md.Fields()
	for i := 0; i < fds.Len(); i++ {
		fd := fds.Get(i)
		raw, ok := v[Key(fd)]
		if !ok {
			continue
		}
		switch {
		case fd.IsMap():
			arr, _ := raw.([]any)
			mp := m.Mutable(fd).Map()
			for _, e := range arr {
				kv, _ := e.([]any)
				if len(kv) != 2 {
					continue
				}
				var k protoreflect.MapKey
				if fd.MapKey().Kind() == protoreflect.StringKind {
					s, _ := kv[0].(string)
					k = protoreflect.ValueOfString(s).MapKey()
				} else {
					k = protoreflect.ValueOfInt32(int32(num(kv[0]))).MapKey()
				}
				mp.Set(k, unscalar(fd.MapValue(), kv[1], func() protoreflect.Message { return mp.NewValue().Message() }))
			}
		case fd.IsList():
			arr, _ := raw.([]any)
			l := m.Mutable(fd).List()
			for _, e := range arr {
				l.Append(unscalar(fd, e, func() protoreflect.Message { return l.NewElement().Message() }))
			}
		case fd.Kind() == protoreflect.MessageKind:
			mm, _ := raw.(map[string]any)
			if mm == nil || mm["nil"] == true {
				continue
			}
			Fill(m.Mutable(fd).Message(), mm)
		default:
			m.Set(fd, unscalar(fd, raw, nil))
		}
	}
}

// ToNodeList builds a node list from a projected value ({"nil":true} -> nil).
func ToNodeList(v map[string]any) *sbom.NodeList {
	if v == nil || v["nil"] == true {
		return nil
	}
	nl := &sbom.NodeList{}
	Fill(nl.ProtoReflect(), v)
	return nl
}

// ToNode builds a node from a projected value.
func ToNode(v map[string]any) *sbom.Node {
	if v == nil || v["nil"] == true {
		return nil
	}
	n := &sbom.Node{}
	Fill(n.ProtoReflect(), v)
	return n
}

// ToEdge builds an edge from a projected value.
func ToEdge(v map[string]any) *sbom.Edge {
	if v == nil || v["nil"] == true {
		return nil
	}
	e := &sbom.Edge{}
	Fill(e.ProtoReflect(), v)
	return e
}

// ToDoc builds a document from a projected value.
func ToDoc(v map[string]any) *sbom.Document {
	if v == nil || v["nil"] == true {
		return nil
	}
	d := &sbom.Document{}
	Fill(d.ProtoReflect(), v)
	return d
}
