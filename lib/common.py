"""Shared machinery of /verif/check: building the harness against /repo's working
tree, running TLC (design checks and trace validation), collecting verdicts,
mapping them through KNOWN_FINDINGS.txt and writing evidence files."""
import concurrent.futures as cf
import fcntl
import json
import os
import re
import shutil
import subprocess
import sys
import tempfile
import time

VERIF = os.path.dirname(os.path.dirname(os.path.abspath(__file__)))
REPO = os.environ.get("VERIF_REPO", "/repo")
SPEC = os.path.join(VERIF, "spec")
BUILD = os.path.join(VERIF, "build")
GOENV = dict(os.environ, GOFLAGS="-mod=mod", GOPROXY="off", GOSUMDB="off", GOTOOLCHAIN="local",
             CGO_ENABLED=os.environ.get("CGO_ENABLED", "1"))


class Infra(Exception):
    """Infrastructure failure: exit 2, never a verdict."""


def log(*a):
    print(*a, file=sys.stderr, flush=True)


class Scratch:
    def __init__(self):
        self.dir = tempfile.mkdtemp(prefix="verif-")

    def path(self, *p):
        return os.path.join(self.dir, *p)

    def sub(self, name):
        d = self.path(name)
        os.makedirs(d, exist_ok=True)
        return d

    def cleanup(self):
        shutil.rmtree(self.dir, ignore_errors=True)


def build_harness(race=False, tags="verif"):
    """go build of /verif/harness against /repo's current working tree."""
    os.makedirs(BUILD, exist_ok=True)
    name = "vh-race" if race else "vh"
    out = os.path.join(BUILD, name)
    hdir = os.path.join(VERIF, "harness")
    with open(os.path.join(BUILD, ".lock"), "w") as lk:
        fcntl.flock(lk, fcntl.LOCK_EX)
        if os.path.abspath(REPO) != "/repo":
            # a run against another checkout (VERIF_REPO): build from a copy of the harness whose replace points there
            alt = os.path.join(BUILD, "harness-alt")
            shutil.rmtree(alt, ignore_errors=True)
            shutil.copytree(hdir, alt)
            gm = open(os.path.join(alt, "go.mod")).read().replace("=> /repo", "=> " + os.path.abspath(REPO))
            open(os.path.join(alt, "go.mod"), "w").write(gm)
            hdir = alt
        shutil.copyfile(os.path.join(REPO, "go.sum"), os.path.join(hdir, "go.sum"))
        tmp = out + ".%d" % os.getpid()
        cmd = ["go", "build", "-tags", tags, "-o", tmp]
        if race:
            cmd.append("-race")
        if os.environ.get("VERIF_COVER") and not race:
            # audit mode (tools/coverage_audit.sh): statement coverage of the library under the checks, GOCOVERDIR set by the caller
            cmd += ["-cover", "-coverpkg=github.com/protobom/protobom/pkg/...,verifharness/..."]
        cmd.append("./cmd/vh")
        p = subprocess.run(cmd, cwd=hdir, env=GOENV, capture_output=True, text=True)
        if p.returncode != 0:
            raise Infra("harness build failed (the tree must compile):\n" + p.stdout + p.stderr)
        os.replace(tmp, out)
    return out


def run(cmd, timeout=3600, env=None, cwd=None, ok=(0,)):
    p = subprocess.run(cmd, capture_output=True, text=True, timeout=timeout, env=env, cwd=cwd)
    if p.returncode not in ok:
        raise Infra("command failed (%d): %s\n%s\n%s" % (p.returncode, " ".join(cmd), p.stdout[-4000:], p.stderr[-4000:]))
    return p


STATS_RE = re.compile(r"(\d+) states generated, (\d+) distinct states found")


def tlc(scratch, module, cfg, env=None, workers="auto", timeout=3600, extra=(), heap="8g", sim=None):
    """Runs TLC on spec/<module>.tla with spec/<cfg> in a private copy; returns (stdout, generated, distinct)."""
    wd = tempfile.mkdtemp(prefix="tlc-", dir=scratch.dir)
    for f in os.listdir(SPEC):
        if f.endswith(".tla") or f.endswith(".cfg"):
            shutil.copyfile(os.path.join(SPEC, f), os.path.join(wd, f))
    gen = os.path.join(BUILD, "gen")
    if os.path.isdir(gen):
        for f in os.listdir(gen):
            if f.endswith(".tla"):
                shutil.copyfile(os.path.join(gen, f), os.path.join(wd, f))
    e = dict(os.environ)
    e["JAVA_TOOL_OPTIONS"] = "-Xmx%s -Xss64m -Djava.io.tmpdir=%s" % (heap, wd)
    if env:
        e.update(env)
    cmd = ["tlc", "-workers", str(workers), "-metadir", os.path.join(wd, "md"), "-config", cfg]
    if sim:
        cmd += ["-simulate", sim]
    cmd += list(extra) + [module + ".tla"]
    try:
        p = subprocess.run(cmd, cwd=wd, env=e, capture_output=True, text=True, timeout=timeout)
    except subprocess.TimeoutExpired:
        raise Infra("TLC timed out after %ds on %s/%s" % (timeout, module, cfg))
    out = p.stdout
    shutil.rmtree(wd, ignore_errors=True)
    m = STATS_RE.search(out)
    gen_n, dist_n = (int(m.group(1)), int(m.group(2))) if m else (0, 0)
    return out, p.returncode, gen_n, dist_n


def tlc_design(scratch, module, cfg, timeout=3600, workers="auto", heap="8g", env=None):
    """Design-level check: the specification itself must satisfy its invariants."""
    t0 = time.time()
    out, rc, gen_n, dist_n = tlc(scratch, module, cfg, workers=workers, timeout=timeout, heap=heap, env=env)
    if rc != 0 or "No error has been found" not in out:
        raise Infra("design check %s/%s did not pass (the specification is inconsistent):\n%s" % (module, cfg, out[-3000:]))
    return {"module": module, "cfg": cfg, "generated": gen_n, "distinct": dist_n, "wall_s": round(time.time() - t0, 1)}


def tlaps_design(scratch, module, timeout=900):
    """Design-level proof: every obligation of spec/<module>.tla must be discharged by tlapm (TLAPS)."""
    t0 = time.time()
    d = os.path.join(scratch.dir, "tlaps-" + module)
    os.makedirs(d, exist_ok=True)
    shutil.copy(os.path.join(VERIF, "spec", module + ".tla"), d)
    try:
        r = subprocess.run(["timeout", str(timeout), "tlapm", "--threads", "8", module + ".tla"], cwd=d,
                           capture_output=True, text=True)
    except OSError as e:
        raise Infra("tlapm could not be started: %s" % e)
    out = r.stdout + r.stderr
    m = re.search(r"All (\d+) obligations? proved", out)
    if r.returncode != 0 or not m:
        raise Infra("proof of %s did not go through (the specification is inconsistent or a back end is missing):\n%s" % (module, out[-2000:]))
    return {"module": module, "cfg": "tlapm", "generated": int(m.group(1)), "distinct": int(m.group(1)),
            "wall_s": round(time.time() - t0, 1), "proved_obligations": int(m.group(1))}


VERDICT_RE = re.compile(r'<<\s*"VERDICT",\s*(-?\d+),\s*(\d+),\s*\{([^}]*)\}\s*>>', re.S)


def validate_trace(scratch, module, cfg, trace, timeout=3600, heap="3g", env=None):
    """Trace validation: returns (verdicts [(sid, line, clause)], generated states). The whole trace must be consumed."""
    e = {"VH_TRACE": trace}
    if env:
        e.update(env)
    out, rc, gen_n, dist_n = tlc(scratch, module, cfg, env=e, workers=1, timeout=timeout, heap=heap)
    if rc != 0 or "No error has been found" not in out:
        raise Infra("trace validation %s on %s failed to run to the end:\n%s" % (module, trace, out[-3000:]))
    verdicts = []
    for m in VERDICT_RE.finditer(out):
        sid, line = int(m.group(1)), int(m.group(2))
        for c in re.findall(r'"([^"]*)"', m.group(3)):
            verdicts.append((sid, line, c))
    return verdicts, gen_n


def count_lines(path):
    n = 0
    with open(path, "rb") as f:
        for _ in f:
            n += 1
    return n


RESET_RE = re.compile(r'"op":\s*"(Reset|Pair|ExtractAll|EditAll)"')   # a script starts with a Reset; a Pair event is a script of its own


def shard_scripts(path, nshards, scratch, key="sid"):
    """Splits an ndjson script file into shards, keeping every script (same sid) together."""
    outs = [open(scratch.path("shard-%s-%d.ndjson" % (os.path.basename(path), i)), "w") for i in range(nshards)]
    cur, idx, nscripts = None, -1, 0
    with open(path) as f:
        for line in f:
            if RESET_RE.search(line):
                nscripts += 1
                idx = (idx + 1) % nshards
            outs[max(idx, 0)].write(line)
    for o in outs:
        o.close()
    return [o.name for o in outs if os.path.getsize(o.name) > 0], nscripts


def parallel(fn, items, workers=None):
    workers = workers or min(len(items), max(1, (os.cpu_count() or 4) - 2)) or 1
    with cf.ThreadPoolExecutor(max_workers=workers) as ex:
        return list(ex.map(fn, items))


# ---------------------------------------------------------------------------
# known findings

def load_known():
    """finding: property=C13 key=<key> <text>   /   fixed: property=C08 <commit> <text>"""
    known = {}
    p = os.path.join(VERIF, "KNOWN_FINDINGS.txt")
    if os.path.exists(p):
        for line in open(p):
            m = re.match(r"finding:\s+property=(\S+)\s+key=(\S+)\s+(.*)", line.strip())
            if m:
                known.setdefault(m.group(1), {})[m.group(2)] = m.group(3)
    return known


def seed():
    try:
        return int(os.environ.get("VERIF_SEED", "1"))
    except ValueError:
        return 1


def write_evidence(pid, tier, level, coverage, assumptions, wall, violations):
    os.makedirs(os.path.join(VERIF, "evidence"), exist_ok=True)
    ev = {"property_id": pid, "tier": tier, "seed": seed(), "level": level, "coverage": coverage,
          "assumptions": assumptions, "wall_s": round(wall, 1), "violations": violations}
    tmp = os.path.join(VERIF, "evidence", ".%s.%d.tmp" % (pid, os.getpid()))
    with open(tmp, "w") as f:
        json.dump(ev, f, indent=1, ensure_ascii=False)
        f.write("\n")
    os.replace(tmp, os.path.join(VERIF, "evidence", pid + ".json"))


def extract_script(trace, sid, dest, key="sid"):
    """Copies the events of one script out of a trace as a replay file (calls only are re-executed)."""
    os.makedirs(os.path.dirname(dest), exist_ok=True)
    with open(trace) as f, open(dest, "w") as o:
        for line in f:
            try:
                ev = json.loads(line)
            except ValueError:
                continue
            if ev.get(key) == sid:
                for k in ("res", "ch", "heap", "val", "kind", "err", "equal", "sel", "path", "note", "u", "ix", "ad", "same", "argsame", "copies", "docchanged", "graph", "sib", "desc", "rl", "rm", "rn"):
                    ev.pop(k, None)
                o.write(json.dumps(ev, ensure_ascii=False, separators=(",", ":")) + "\n")
    return dest
