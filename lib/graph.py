"""Checks of the graph-algebra family (C08-C12, C15, C16): GraphMachine / GraphLaws design
checks, script generation (TLC simulation export + seeded Go generators), execution on the
real sbom package, trace validation with TraceGraph.tla, clause ownership per property."""
import json
import os
import re
import time

from common import (Infra, Scratch, build_harness, count_lines, extract_script, load_known, log, parallel, run,
                    seed, shard_scripts, tlaps_design, tlc, tlc_design, validate_trace, write_evidence, VERIF)

# clause ownership: a verdict is reported by the property that owns its clause, and only by it
OWN = {
    "C08": r"^((Union|Intersect|Add|Remove|RelateNode|RelateList|Graph|Siblings|Descendants|ByPurlType)\.(wf\..*|normalised)"
           r"|remove\..*|outcome\.(Union|Intersect|Add|Remove|RelateNode|RelateList|ByPurlType)\..*)$",
    "C09": r"^(union\..*|add\..*|law\.(union|add)\..*)$",
    "C10": r"^(intersect\..*|law\.intersect\..*)$",
    "C11": r"^frame\.(Union|Intersect|Copy|Graph|Siblings|Descendants|ByPurlType|GetNodeByID|GetNodesByName|"
           r"GetNodesByIdentifier|GetRootNodes|Match|Equal|Query)\..*$",
    "C12": r"^(heap\..*|frame\.Mutate\..*|copy\..*)$",
    "C15": r"^(graph\..*|siblings\..*|descendants\..*|law\.(graph|siblings|descendants)\..*"
           r"|outcome\.(Graph|Siblings|Descendants)\..*)$",
    "C16": r"^(lookup\..*|match\..*|bypurltype\..*|outcome\.(GetNode.*|GetRootNodes|Match)\..*)$",
}

RESULT_KEYS = ("res", "ch", "heap", "val", "kind", "err", "equal", "sel", "path", "note")


def export_scripts(scratch, n, depth, dest, cfg="GraphMachine_sim.cfg", module="GraphMachine"):
    """TLC simulation of a machine that prints the calls of each behaviour; they become harness scripts."""
    workers = 16
    per = max(1, (n + workers - 1) // workers)
    out, rc, gen, dist = tlc(scratch, module, cfg, workers=workers, timeout=1200, heap="8g",
                             sim="num=%d" % per, extra=["-depth", str(depth), "-seed", str(seed())])
    nscripts = 0
    with open(dest, "w") as f:
        for m in re.finditer(r'<<"SCRIPT", ("(?:[^"\\]|\\.)*")>>', out):
            try:
                script = json.loads(json.loads(m.group(1)))
            except ValueError:
                continue
            nscripts += 1
            for ev in script:
                ev["sid"] = nscripts
                f.write(json.dumps(ev) + "\n")
    if nscripts == 0:
        raise Infra("TLC exported no scripts:\n" + out[-2000:])
    return nscripts, gen


def run_graph(pid, tier, plan, replay=None):
    """plan: dict(design=[(module,cfg,timeout)], gens=[dict(args=[...])], export=(n,depth)|None, heap=bool,
    assumptions=[...], rule=str)"""
    t0 = time.time()
    scratch = Scratch()
    own = re.compile(OWN[pid])
    known = load_known().get(pid, {})
    try:
        vh = build_harness()
        design = []
        files = []  # (label, script file)
        tlc_states = tlc_trans = 0
        if replay:
            files.append(("replay", replay))
        else:
            for (mod, cfg, to) in plan.get("design", []):
                d = tlc_design(scratch, mod, cfg, timeout=to)
                design.append(d)
                tlc_states += d["distinct"]
                tlc_trans += d["generated"]
            for mod in plan.get("proofs", []):
                design.append(tlaps_design(scratch, mod))
            if plan.get("export"):
                n, depth = plan["export"]
                dest = scratch.path("export.ndjson")
                ns, gen = export_scripts(scratch, n, depth, dest)
                tlc_trans += gen
                files.append(("tlc-export", dest))
            if plan.get("universe"):
                # the complete merge universe of GraphLaws, written out by TLC; the harness forms ordered pairs of it
                cfg, npairs = plan["universe"]
                udest = scratch.path("universe.json")
                out, rc, g1, g2 = tlc(scratch, "MC_GraphLaws", cfg, env={"VH_EXPORT": udest}, workers=1, timeout=900)
                if not os.path.exists(udest):
                    raise Infra("TLC did not export the universe:\n" + out[-2000:])
                dest = scratch.path("pairs.ndjson")
                run([vh, "graph-gen", "--mode", "allpairs", "--universe", udest, "--n", str(npairs), "--out", dest, "--seed", str(seed())])
                files.append(("tlc-universe-pairs:%s" % ("all" if npairs == 0 else npairs), dest))
            if plan.get("graphs_universe"):
                # every graph on three identifiers, written out by TLC; the harness runs every extraction from every start node
                cfg, ncases = plan["graphs_universe"]
                udest = scratch.path("graphs.json")
                out, rc, g1, g2 = tlc(scratch, "MC_GraphLaws", cfg, env={"VH_EXPORT": udest}, workers=1, timeout=900)
                if not os.path.exists(udest):
                    raise Infra("TLC did not export the graphs:\n" + out[-2000:])
                dest = scratch.path("extractall.ndjson")
                run([vh, "graph-gen", "--mode", "allgraphs", "--universe", udest, "--n", str(ncases), "--out", dest, "--seed", str(seed())])
                files.append(("tlc-universe-graphs:%s" % ("all" if ncases == 0 else ncases), dest))
            for i, g in enumerate(plan.get("gens", [])):
                dest = scratch.path("gen%d.ndjson" % i)
                run([vh, "graph-gen", "--out", dest, "--seed", str(seed() * 1000 + i)] + g["args"])
                files.append(("gen:" + " ".join(g["args"]), dest))

        # shard, execute on the real code, validate
        jobs = []
        nscripts = 0
        for label, path in files:
            shards, ns = shard_scripts(path, 14 if not replay else 1, scratch)
            nscripts += ns
            for sh in shards:
                jobs.append((label, sh))

        def one(job):
            label, sh = job
            trace = sh + ".trace"
            cmd = [vh, "graph-run", "--scripts", sh, "--out", trace]
            if plan.get("heap"):
                cmd.append("--heap")
            p = run(cmd, ok=(0, 2), timeout=3600)
            if p.returncode == 2 and "exceeded deadline" not in p.stderr:
                raise Infra("harness failed: " + p.stderr[-2000:])
            verdicts, gen = validate_trace(scratch, "TraceGraph", "TraceGraph.cfg", trace)
            return label, trace, verdicts, gen, count_lines(trace)

        results = parallel(one, jobs)
        events = sum(r[4] for r in results)
        val_states = sum(r[3] for r in results)

        violations, knowns, observations = [], {}, {}
        bad_scripts = set()
        for label, trace, verdicts, gen, n in results:
            for sid, line, clause in verdicts:
                if own.match(clause):
                    if clause in known:
                        knowns.setdefault(clause, 0)
                        knowns[clause] += 1
                    else:
                        violations.append((trace, sid, line, clause))
                        bad_scripts.add((trace, sid))
                else:
                    observations[clause] = observations.get(clause, 0) + 1

        samples = []
        for label, path in files[:3]:
            with open(path) as f:
                samples.append({"source": label, "script_head": [json.loads(next(f)) for _ in range(3) if True][:3]})
        # distinct non-trivial cases: distinct (op, operands) with a non-empty operand
        distinct = set()
        ops = {}
        for label, trace, verdicts, gen, n in results:
            regs = {}
            with open(trace) as f:
                for line in f:
                    ev = json.loads(line)
                    op = ev.get("op")
                    ops[op] = ops.get(op, 0) + 1
                    if op == "Reset":
                        regs = dict(ev["regs"])
                        continue
                    a, b = regs.get(ev.get("a")), regs.get(ev.get("b"))
                    if (a and a.get("nodes")) or (b and b.get("nodes")):
                        key = json.dumps([op, a, b, {k: v for k, v in ev.items() if k not in RESULT_KEYS + ("sid", "a", "b", "out")}],
                                         sort_keys=True)
                        distinct.add(hash(key))
                    for k, v in (ev.get("ch") or {}).items():
                        regs[k] = v

        replay_paths = []
        for i, (trace, sid) in enumerate(sorted(bad_scripts)[:5]):
            dest = os.path.join(VERIF, "replay", "%s-seed%d-%d.ndjson" % (pid, seed(), i))
            extract_script(trace, sid, dest)
            replay_paths.append((dest, sorted({c for (t, s, l, c) in violations if t == trace and s == sid})))

        coverage = {
            "states": max(1, tlc_states + val_states),
            "transitions": max(1, tlc_trans + val_states),
            "design_checks": design,
            "trace_validation_states": val_states,
            "traces_validated_against_impl": max(0, nscripts - len(bad_scripts)),
            "scripts_executed": nscripts,
            "evaluations": events,
            "distinct_nontrivial": len(distinct),
            "rule": plan.get("rule", ""),
            "calls_by_operation": ops,
            "samples": samples,
            "clauses_owned": OWN[pid],
            "observations_not_owned": observations,
            "known_findings_hit": knowns,
            "violating_clauses": sorted({c for (_, _, _, c) in violations}),
            "exhaustive": bool(plan.get("exhaustive", False)),
        }
        if not replay:
            write_evidence(pid, tier, "model_checking", coverage, plan.get("assumptions", []), time.time() - t0, len(violations))
        for k, n in sorted(knowns.items()):
            print("KNOWN-FINDING: property=%s %s (%d occurrences) %s" % (pid, k, n, known[k]))
        if violations:
            for dest, clauses in replay_paths:
                print("VIOLATION property=%s replay=%s clauses=%s" % (pid, dest, ",".join(clauses)))
            return 1
        log("%s %s: ok, %d scripts, %d events, %.0fs" % (pid, tier, nscripts, events, time.time() - t0))
        return 0
    finally:
        scratch.cleanup()
