"""Per-property plans: what is enumerated by TLC, what is generated, and how much, per tier."""
import graph
import simple
from common import seed

Q, T = "quick", "thorough"

ASSUME_GRAPH = [
    "projection (harness/proj) is total, order preserving and treats nil and empty collections as the same value",
    "node identifiers within one operand are unique (duplicate identifiers only in the lookup scripts)",
    "TLC and the CommunityModules Json/IOUtils overrides are correct",
]


def g08(pid, tier, replay):
    plan = {
        "design": [("GraphMachine", "GraphMachine_quick.cfg", 900)] if tier == Q else
                  [("GraphMachine", "GraphMachine_quick.cfg", 900), ("GraphMachine", "GraphMachine_depth2.cfg", 3000),
                   ("GraphMachine", "GraphMachine_types2.cfg", 3000)],
        "proofs": ["GraphAlgebra"],
        # every list of the 512-element universe through every removal and every relating of a node (always); relating a
        # list at every position for a sample of ordered pairs (quick) / all ordered pairs (thorough)
        "universe": ("GraphLaws_export.cfg", 1500 if tier == Q else 0),
        "export": (96, 19) if tier == Q else (640, 23),
        "gens": [{"args": ["--mode", "edit", "--n", "400" if tier == Q else "4000", "--len", "10", "--ids", "5"]},
                 {"args": ["--mode", "edit", "--n", "60" if tier == Q else "600", "--len", "30", "--ids", "14", "--rich", "0.05"]}],
        "rule": "scripts = TLC simulation behaviours of GraphMachine (builders + editing operations) and seeded random "
                "editing histories over well-formed registers; a case is an (operation, operand values, arguments) "
                "triple, non-trivial when an operand has at least one node; distinct by hash of the projected operands",
        "assumptions": ASSUME_GRAPH,
    }
    return graph.run_graph(pid, tier, plan, replay)




def g09(pid, tier, replay):
    plan = {
        "export": (48, 19) if tier == Q else (320, 23),
        "design": [("MC_GraphLaws", "GraphLaws_quick.cfg", 3000)] if tier == Q else
                  [("MC_GraphLaws", "GraphLaws_thorough.cfg", 7200), ("MC_GraphLaws", "GraphLaws_assoc.cfg", 3000)],
        "proofs": ["GraphAlgebra"],
        # ordered pairs of the complete 512-element universe the design check enumerates: a sample (quick) / all 262 144 (thorough)
        "universe": ("GraphLaws_export.cfg", 6000 if tier == Q else 0),
        "gens": [{"args": ["--mode", "laws", "--n", "250" if tier == Q else "3000", "--ids", "4", "--rich", "0.3"]},
                 {"args": ["--mode", "laws", "--n", "40" if tier == Q else "400", "--ids", "12", "--rich", "0.5"]}],
        "rule": "every script takes three seeded random node lists x, y, z (half of them ill-formed: dangling edges, several "
                "edges per source and type, repeated targets, roots that are not nodes; every schema field populated by "
                "reflection with probability --rich) and runs union/add/intersect in all the orders the laws need; a case "
                "is an (operation, operand values) pair, non-trivial when an operand has a node",
        "assumptions": ASSUME_GRAPH,
    }
    return graph.run_graph(pid, tier, plan, replay)


def g11(pid, tier, replay):
    plan = {
        "design": [("GraphMachine", "GraphMachine_frames.cfg", 900)],
        "gens": [{"args": ["--mode", "readonly", "--n", "150" if tier == Q else "10000", "--len", "24", "--ids", "5"]},
                 {"args": ["--mode", "edit", "--n", "100" if tier == Q else "6000", "--len", "10", "--ids", "5", "--rich", "0.5"]}],
        "rule": "operands with every schema field populated by reflection (probability 0.6) and unsorted roots, targets and "
                "attribute lists; every read-only / value-returning public operation incl. the three serializers; ALL "
                "registers are snapshotted before and after every call; distinct by (operation, operands)",
        "assumptions": ASSUME_GRAPH + ["the concurrency clause (no data race between read-only operations) is decided by the "
                                       "-race stage of this check (concurrent_read_only in the coverage)"],
    }
    rc = graph.run_graph(pid, tier, plan, replay)
    if replay:
        return rc

    def prepare(scratch, plan2, vh):
        plan2["jobs"] = conc_jobs("readonly", tier, 6)

    plan2 = {
        "module": "TraceConc", "cfg": "TraceConc.cfg", "own": r"^conc\.readonly\..*$", "jobs": [], "prepare": prepare,
        "merge_into_existing": "concurrent_read_only", "replay_cmd": lambda path: None,
        "result_keys": (), "nontrivial": lambda e: e.get("op") == "RO",
        "rule": "four free-running goroutines each perform six seeded read-only / value-returning operations (both operand "
                "orders) on ONE shared pair of richly populated node lists in a -race build; a race report or runtime abort "
                "is an event no specification action accepts",
        "assumptions": ["the race detector reports only real unsynchronised conflicting accesses; absence of a report is not a proof"],
    }
    rc2 = simple.run_simple(pid, tier, plan2, None)
    return max(rc, rc2)


def g12(pid, tier, replay):
    plan = {
        "heap": True,
        "design": [("GraphMachine", "GraphMachine_frames.cfg", 900)],
        "gens": [{"args": ["--mode", "heap", "--n", "300" if tier == Q else "30000", "--len", "14", "--ids", "4"]}],
        "rule": "histories op; Mutate; op; Mutate over four registers: copies, unions and intersections of shared operands "
                "interleaved with reflective mutation of one mutable location (every scalar, list element, map entry, "
                "append, truncate, nested message, chosen by index over the schema); address sets of results and operands "
                "must be disjoint and a mutation may change only the mutated register",
        "assumptions": ASSUME_GRAPH + ["heap identity is the set of base addresses of reachable slices, maps and messages; "
                                       "interior aliasing of a sub-slice with a different base is only caught by the mutation frame"],
    }
    return graph.run_graph(pid, tier, plan, replay)


def g15(pid, tier, replay):
    plan = {
        "design": [("MC_GraphLaws", "Extract_quick.cfg" if tier == Q else "Extract_thorough.cfg", 3000)],
        # all 32 768 graphs on three identifiers (every edge set incl. dangling targets, every root set) x every start node:
        # a seeded sample in quick, all of them in thorough
        "graphs_universe": ("Extract_export.cfg", 4000 if tier == Q else 0),
        "gens": [{"args": ["--mode", "extract", "--n", "60" if tier == Q else "600", "--ids", "4"]},
                 {"args": ["--mode", "extract", "--n", "6" if tier == Q else "40", "--ids", "12"]}],
        "rule": "seeded random directed multigraphs (two edge types, arbitrary root sets, a third ill-formed with dangling "
                "targets), every start node incl. an unknown one, every depth 1..n+1, on the list and on a shuffled copy; "
                "each call runs under a 20 s deadline",
        "assumptions": ASSUME_GRAPH + ["termination is decided by a per-call deadline on the real code, not by a liveness proof"],
    }
    return graph.run_graph(pid, tier, plan, replay)


def g16(pid, tier, replay):
    plan = {
        "design": [("MC_GraphLaws", "Match_quick.cfg" if tier == Q else "Match_thorough.cfg", 3000)],
        "gens": [{"args": ["--mode", "match", "--n", "300" if tier == Q else "4000", "--ids", "4"]},
                 {"args": ["--mode", "lookup", "--n", "60" if tier == Q else "600", "--ids", "5"]}],
        "rule": "lists of up to 4 nodes over 3 hash algorithms x {absent, v, w}, purl in {absent, p, q}, files and packages; "
                "each probe is matched against the list and two shuffles, three times each (map iteration order); lookups "
                "by id, name, identifier type/value, purl type, roots incl. repeated identifiers",
        "assumptions": ASSUME_GRAPH + ["hash values are non-empty strings (AddHash refuses empty values)"],
    }
    return graph.run_graph(pid, tier, plan, replay)


ASSUME_NODE = [
    "strings are atoms for the specification; separator characters are reported to it as the derived fact `sep`",
    "Schema.tla is generated from the live descriptors on every run (fields added later are covered)",
    "nested contact lists are ordered for completeness and unordered for soundness (the property does not decide it)",
]


def n13(pid, tier, replay):
    n = 40 if tier == Q else 400
    plan = {
        "module": "TraceNode", "cfg": "TraceNode.cfg",
        "own": r"^eq\..*$" if pid == "C13" else r"^diff\..*$",
        "design": [("MC_NodeLaws", "NodeLaws_quick.cfg" if tier == Q else "NodeLaws_thorough.cfg", 3000)],
        "jobs": [{"cmd": ["node-run", "--mode", "eq" if pid == "C13" else "diff", "--n", str(n), "--seed", str(seed() * 100 + i)],
                  "label": "shard%d" % i} for i in range(12)],
        "replay_cmd": lambda path: ["node-run", "--replay", path],
        "result_keys": ("eq", "eqba", "eqaa", "eqbb", "csa", "csb", "isnil", "count", "added", "removed", "ab", "bc", "ac", "how"),
        "nontrivial": lambda e: len(e.get("a", {})) > 2 or len(e.get("b", {})) > 2,
        "rule": "per base node (every schema field populated by reflection with probability 0.15/0.4/0.8): identical clone, "
                "shuffle of every repeated field, single-location perturbation at EVERY reachable schema path (both "
                "directions for diff), sub-second date change, independent node over the same pools, overlay; plus "
                "separator attacks, transitivity triples, edge and node-list pairs; non-trivial = an operand with an "
                "attribute beyond id and type; distinct by hash of the operands",
        "assumptions": ASSUME_NODE,
    }
    return simple.run_simple(pid, tier, plan, replay)


def c18(pid, tier, replay):
    n = 60 if tier == Q else 4000
    plan = {
        "module": "TraceConfig", "cfg": "TraceConfig.cfg", "own": r"^config\..*$",
        "design": [("Config", "Config_isolated.cfg", 900)],
        "jobs": [{"cmd": ["config-run", "--n", str(n), "--len", "8" if i % 2 == 0 else "14", "--seed", str(seed() * 100 + i)],
                  "label": "shard%d" % i} for i in range(8)],
        "replay_cmd": lambda path: ["config-run", "--replay", path],
        "result_keys": ("insts", "rinsts", "fresh", "rfresh", "used", "usedindent", "first", "second"),
        "nontrivial": lambda e: e.get("op") != "Reset",
        "rule": "seeded random histories of NewWriter / NewReader calls with every subset of the available options in "
                "random order, interleaved with WriteStream (instance options), WriteStreamWithOptions (per-call format) "
                "and Store twice (no-clobber); after EVERY call the option values of every live instance and of a fresh "
                "option-less instance are logged; distinct by (call, options, position)",
        "assumptions": ["UnserializeOptions / SerializeOptions are empty structs and cannot be observed",
                        "the format actually used is read from the output with encoding/json only"],
        "replay_whole_script": True,
    }
    def prepare(scratch, plan, vh):
        # behaviours of Config.tla (simulation) are executed on the real constructors as well
        dest = scratch.path("config-scripts.ndjson")
        ns, gen = graph.export_scripts(scratch, 160 if tier == Q else 8000, 12, dest, cfg="Config_sim.cfg", module="Config")
        plan["jobs"] = plan["jobs"] + [{"cmd": ["config-run", "--n", "0", "--scripts", dest], "label": "tlc-export"}]
        plan["extra_coverage"] = {"tlc_exported_histories": ns}

    plan["prepare"] = prepare
    rc = simple.run_simple(pid, tier, plan, replay)
    if replay:
        return rc

    # second stage: the dispatch pipeline (Pipeline.tla): which format and which driver a call ends up with
    def prepare2(scratch, plan2, vh):
        dest = scratch.path("pipeline-scripts.ndjson")
        ns, gen = graph.export_scripts(scratch, 240 if tier == Q else 20000, 20, dest, cfg="Pipeline_sim.cfg", module="Pipeline")
        plan2["jobs"] = [{"cmd": ["pipe-run", "--scripts", dest], "label": "tlc-export"}]
        plan2["extra_coverage"] = {"tlc_exported_histories": ns}

    plan2 = {
        "module": "TracePipeline", "cfg": "TracePipeline.cfg", "own": r"^pipe\.(parse|write)\.precedence$", "jobs": [],
        "design": [("Pipeline", "Pipeline.cfg", 900)], "prepare": prepare2,
        "merge_into_existing": "dispatch_pipeline", "replay_cmd": lambda path: None,
        "result_keys": ("res",), "nontrivial": lambda e: e.get("op") in ("Parse", "Write"),
        "rule": "behaviours of Pipeline.tla (register / unregister drivers on both registries, new writer with a format, parse "
                "and write calls with no options value / no format / a stated format, over declared / undeclared, valid / "
                "invalid inputs) exported by TLC simulation and replayed on the real reader and writer with self-naming and "
                "failing drivers; the observed [kind, stage, driver] must be a result the specification allows.  C18 owns the "
                "precedence clauses (a format stated in the call decides); the other clauses (registry effect, stage of an "
                "error, panic on a nil options value) are behaviour outside the listed properties and are reported as "
                "observations",
        "assumptions": ["the stage of an error is read off the message prefix each pipeline step adds"],
    }
    rc2 = simple.run_simple(pid, tier, plan2, None)
    return max(rc, rc2)


def c19(pid, tier, replay):
    n = 25 if tier == Q else 1500
    plan = {
        "module": "TraceStore", "cfg": "TraceStore.cfg", "own": r"^store\..*$",
        "design": [("Store", "Store.cfg" if tier == Q else "Store_thorough.cfg", 1800)],
        "jobs": [{"cmd": ["store-run", "--n", str(n), "--len", "12" if i % 2 == 0 else "20", "--seed", str(seed() * 100 + i)],
                  "label": "shard%d" % i} for i in range(8)],
        "replay_cmd": lambda path: ["store-run", "--replay", path],
        "replay_whole_script": True,
        "result_keys": ("res", "outside", "direxists"),
        "nontrivial": lambda e: e.get("op") in ("Store", "Retrieve"),
        "rule": "seeded random histories of Store (both no-clobber settings, documents with random node lists, also without "
                "identifier) and Retrieve over identifiers from a hostile pool (path separators, dot-dot, absolute paths, "
                "unicode, 4 kB, newline, empty), with injected faults: directory removed / replaced by a file / made "
                "read-only / inaccessible, entry emptied / overwritten with garbage / replaced by another document / "
                "made unreadable / deleted; every script runs in child processes as uid 65534 with a write-ahead journal, "
                "after every Store all identifiers are retrieved; the directory tree around the store is listed after every step",
        "assumptions": ["identifier strings are atoms for the specification (two different strings are different keys)",
                        "a damaged entry is one that is empty, not decodable, or holds another document; a truncated entry that "
                        "still decodes to a document with the requested identifier cannot be told from a valid one without a checksum",
                        "permission faults are real only when the check can drop to uid 65534 (setpriv); recorded in the trace"],
    }

    def prepare(scratch, plan, vh):
        # behaviours of Store.tla (simulation, with its fault actions) are executed on the real backend as well
        dest = scratch.path("store-scripts.ndjson")
        ns, gen = graph.export_scripts(scratch, 96 if tier == Q else 5000, 13, dest, cfg="Store_sim.cfg", module="Store")
        plan["jobs"] = plan["jobs"] + [{"cmd": ["store-run", "--n", "0", "--scripts", dest], "label": "tlc-export"}]
        plan["extra_coverage"] = {"tlc_exported_histories": ns}

    plan["prepare"] = prepare
    return simple.run_simple(pid, tier, plan, replay)


def c20(pid, tier, replay):
    plan = {
        "module": "TraceCrash", "cfg": "TraceCrash.cfg", "own": r"^crash\.(?!model-mismatch).*$",
        "infra": r"^crash\.model-mismatch$",
        "level": "fault_enumeration",
        "design": [("StoreCrash", "StoreCrash_rename.cfg", 600)],
        "jobs": [{"cmd": ["crash-run", "--torn", "sample" if tier == Q else "all"], "label": "crash-points"}],
        "replay_cmd": lambda path: ["crash-run", "--torn", "sample"],
        "result_keys": ("id_res", "id_doc", "other_res", "other_doc", "nfiles"),
        "nontrivial": lambda e: e.get("op") == "Crash",
        "rule": "the file-system calls of a real Store are recorded with strace for three scenarios (first store into a missing "
                "directory, first store, overwrite; a bystander entry under another identifier); the storing process is then "
                "killed for real (strace fault injection, SIGKILL) at the entry of EVERY one of those calls, and for every "
                "write the torn prefixes {1, half, len-1} (thorough: every length) are completed by hand; after each crash "
                "a fresh process retrieves the subject and the bystander. The recorded call sequence is also replayed on "
                "the abstract file system of StoreCrash.tla where Atomic is evaluated after every call and for every torn "
                "length of every write. distinct = (scenario, call index, torn length)",
        "assumptions": ["crash = death of the process (page cache survives); power loss is out of scope",
                        "POSIX semantics of openat/write/rename/unlink on one directory; rename is atomic",
                        "strace observes all file-system calls of the store (it runs on one locked thread)"],
    }
    return simple.run_simple(pid, tier, plan, replay)


ASSUME_TR = [
    "strings are atoms for the specification; text fidelity is checked on a pool of ASCII, multi-byte, combining, RTL and emoji "
    "strings that JSON carries without escapes",
    "the carry tables in Translate.tla are facts of SPDX 2.3 / CycloneDX 1.4 / 1.5, not read from the code",
    "the writer's output is decoded independently with encoding/json only",
]
TR_KEYS = ("w1", "r1", "w2", "r2", "wire", "doc1", "doc2")


def tr(pid, tier, replay, own, modes, design, rule, prepare=None):
    big = tier != Q
    jobs = []
    for mode, nq, nt, shards in modes:
        for i in range(shards):
            job = {"cmd": ["tr-run", "--mode", mode, "--n", str(nt if big else nq), "--seed", str(seed() * 100 + i)],
                   "label": "%s-%d" % (mode, i)}
            if i % 2 == 1:
                # every other shard runs in a local time zone that is not UTC (dates are instants, not wall-clock readings)
                import os as _os
                job["env"] = dict(_os.environ, TZ="Asia/Kolkata" if i % 4 == 1 else "America/Los_Angeles")
                job["label"] += "-tz"
            jobs.append(job)
    plan = {
        "module": "TraceTranslate", "cfg": "TraceTranslate.cfg", "own": own, "design": design, "jobs": jobs,
        "replay_cmd": lambda path: ["tr-run", "--replay", path],
        "result_keys": TR_KEYS, "nontrivial": lambda e: len(e.get("doc", {}).get("node_list", {}).get("nodes", [])) > 0,
        "rule": rule, "assumptions": ASSUME_TR,
    }
    if prepare:
        plan["prepare"] = prepare
    return simple.run_simple(pid, tier, plan, replay)


def c01(pid, tier, replay):
    return tr(pid, tier, replay, r"^(rt\.spdx\..*|total\.spdx23\..*)$", [("spdx", 132, 1320, 8)],
              [("TrSPDX", "TrSPDX_quick.cfg", 900)] if tier == Q else
              [("TrSPDX", "TrSPDX_attrs.cfg", 3000), ("TrSPDX", "TrSPDX_graph.cfg", 3000)],
              "seeded documents of the SPDX-representable class: 1-5 nodes with unique valid SPDX ids, packages and files, "
              "every carried attribute present with probability 0.1/0.5/0.9, sweeps over all 44 relationship types, 16 "
              "checksum algorithms, 12 purposes, 8 reference types, 4 identifier types; arbitrary edges (cycles, self loops, "
              "several per source and type, repeated targets), any root subset; indents 0/1/4/8; written, decoded "
              "independently, read with auto-detection, twice")


def c02(pid, tier, replay):
    def prepare(scratch, plan, vh):
        # every labelled tree (root + 3 nodes quick, root + 4 thorough) in every stored order of its contains edges: exported by TLC
        import re as _re, json as _json
        from common import tlc as _tlc, Infra as _Infra
        n = 3 if tier == Q else 4
        out, rc, gen, dist = _tlc(scratch, "TrCDX", "TrCDX_export%d.cfg" % n, workers=1, timeout=1800)
        if rc != 0 or "No error has been found" not in out:
            raise _Infra("TLC could not enumerate the trees:\n" + out[-2000:])
        evs = [_json.loads(_json.loads(m.group(1)))[0] for m in _re.finditer(r'<<"SCRIPT", ("(?:[^"\\]|\\.)*")>>', out)]
        if not evs:
            raise _Infra("TLC exported no trees")
        shards = 1 if tier == Q else 8
        for k in range(shards):
            dest = scratch.path("trees-%d.ndjson" % k)
            with open(dest, "w") as f:
                for ev in evs[k::shards]:
                    f.write(_json.dumps(ev) + "\n")
            plan["jobs"].append({"cmd": ["tr-run", "--mode", "trees", "--scripts", dest, "--seed", str(seed() * 100 + k)], "label": "tlc-trees-%d" % k})
        plan["extra_coverage"] = {"tlc_exported_tree_orders": len(evs), "tree_nodes": n + 1, "exhaustive_trees_and_orders": True}

    return tr(pid, tier, replay, r"^(rt\.cdx\..*|total\.cdx1[45]\..*)$", [("cdx", 120, 6000, 8)],
              [("TrCDX", "TrCDX_quick.cfg" if tier == Q else "TrCDX_thorough.cfg", 3000)],
              "seeded single-rooted containment trees of 1-6 nodes (chains of maximal depth, random trees, flat), contains "
              "edges stored in random order and random grouping of targets, nodes in random order; CycloneDX-expressible "
              "attributes with probability 0.1/0.5/0.9, sweeps over component types, hash algorithms, reference types of the "
              "spec version; serial, version, lifecycles; CycloneDX 1.4 and 1.5 alternately; indents 0/1/4/8; plus, exported "
              "by TLC from TrCDX.tla, EVERY labelled tree on root + 3 (quick) / root + 4 (thorough) nodes in EVERY stored "
              "order of its contains edges (96 / 3000 documents), one edge per pair or consecutive targets grouped", prepare=prepare)


def c03(pid, tier, replay):
    return tr(pid, tier, replay, r"^xl\..*$", [("free", 60, 3000, 6), ("fixtures", 21, 840, 4), ("spdx", 40, 2000, 1), ("cdx", 40, 2000, 1)],
              [("TrSPDX", "TrSPDX_quick.cfg", 900), ("TrCDX", "TrCDX_quick.cfg", 900)],
              "arbitrary well-formed documents (several purposes, dependsOn and other edges between arbitrary nodes, DAGs, "
              "cycles, none / one / several roots) written in every registered format (SPDX 2.3, CycloneDX 1.0-1.5); plus "
              "sub-graphs (4-24 nodes) sampled from seven real SBOMs of the repository parsed with protobom and written in "
              "the other formats; the output is decoded with encoding/json only and read back with the format stated")


def c07(pid, tier, replay):
    import json as _json
    from common import tlc as _tlc, Infra as _Infra
    nshards = 12
    sample = 1800 if tier == Q else 0

    def prepare(scratch, plan, vh):
        dest = scratch.path("shapes.json")
        enums = scratch.path("enums.json")
        from common import run as _run
        _run([vh, "gen-schema", "--out", scratch.path("Schema-unused.tla"), "--enums", enums])
        out, rc, gen, dist = _tlc(scratch, "Totality", "Totality_shapes.cfg", env={"VH_EXPORT": dest, "VH_ENUMS": enums}, workers=1, timeout=900)
        if rc != 0 or "No error has been found" not in out:
            raise _Infra("TLC could not enumerate the shape lattice:\n" + out[-2000:])
        exported = _json.load(open(dest))
        n = len(exported["all"])
        nsweep = len(exported.get("sweeps", []))
        plan["jobs"] = [{"cmd": ["ser-run", "--shapes", dest, "--sample", str(sample), "--seed", str(seed()), "--shard", str(i),
                                 "--shards", str(nshards)], "label": "shard%d" % i} for i in range(nshards)]
        plan["extra_coverage"] = {"shape_lattice_size": n, "shapes_executed": n if sample == 0 else min(sample, n),
                                  "formats": 8, "exhaustive": sample == 0, "enum_sweep_documents": nsweep}

    plan = {
        "module": "TraceSer", "cfg": "TraceSer.cfg", "own": r"^ser\..*$", "jobs": [], "prepare": prepare,
        "replay_cmd": lambda path: ["ser-run", "--replay", path],
        "result_keys": ("o", "n", "op"), "nontrivial": lambda e: True,
        "rule": "TLC enumerates the document-shape lattice of Totality.tla (metadata x node list x roots x nodes x edges x "
                "document types x nil elements; the size is reported as shape_lattice_size) and exports it; the harness builds a real Document per shape and "
                "writes it with all eight registered serializers (SPDX 2.3, CycloneDX 1.0-1.5, SPDX 3 beta) in child processes "
                "with a write-ahead journal, each document at two different history positions (block order, then reversed); "
                "quick runs a seeded sample of the lattice, thorough all of it; plus the enum sweep (every declared number of "
                "every enum of the schema, -1 and one above the largest, each in an otherwise serializable document), always in "
                "full; distinct = (shape, format)",
        "assumptions": ["outputs are compared after masking created/timestamp members and sorting every JSON array (done by the "
                        "harness; the specification decides equality)",
                        "shapes with nil elements are reachable only by programmatic construction; they are included"],
    }
    return simple.run_simple(pid, tier, plan, replay)


def c04(pid, tier, replay):
    import json as _json
    from common import tlc as _tlc, Infra as _Infra, run as _run
    nshards = 12

    def prepare(scratch, plan, vh):
        paths, dest = scratch.path("paths.json"), scratch.path("singles.json")
        _run([vh, "fault-paths", "--out", paths])
        out, rc, gen, dist = _tlc(scratch, "Totality", "Totality_faults.cfg", env={"VH_EXPORT": dest, "VH_PATHS": paths},
                                  workers=1, timeout=900)
        if rc != 0 or "No error has been found" not in out:
            raise _Infra("TLC could not enumerate the fault schedule:\n" + out[-2000:])
        n = len(_json.load(open(dest))["all"])
        plan["jobs"] = [{"cmd": ["fault-run", "--schedule", dest, "--pairs", "3000" if tier == Q else "200000",
                                 "--extra", "300" if tier == Q else "3000", "--seed", str(seed()),
                                 "--shard", str(i), "--shards", str(nshards)], "label": "shard%d" % i} for i in range(nshards)]
        plan["extra_coverage"] = {"json_paths": len(_json.load(open(paths))), "single_faults_enumerated_by_tlc": n,
                                  "exhaustive": False}

    plan = {
        "module": "TraceTranslate", "cfg": "TraceTranslate.cfg", "own": r"^pf\..*$", "jobs": [], "prepare": prepare,
        "level": "fault_enumeration",
        "replay_cmd": lambda path: ["fault-run", "--replay", path],
        "result_keys": ("results",), "nontrivial": lambda e: True,
        "rule": "the harness lists every JSON path of six representative documents (writer output of a rich document in "
                "SPDX 2.3 / CycloneDX 1.4 / 1.5 and three real SBOMs of the repository); TLC enumerates paths x 10 fault kinds "
                "(null, each wrong type, empty, absent, duplicated member/element, oversized) and exports the schedule; every "
                "single fault that applies is executed, plus seeded pairs of faults at unrelated paths, plus cases outside the "
                "model (random bytes, truncations, bit flips, nesting depth 10^2-10^5); each input goes through format "
                "detection, auto-detected parsing and three explicit parsers in child processes (journal, 20 s deadline, 8 GB "
                "address-space cap); distinct = (input, entry point)",
        "assumptions": ["'all byte strings' is sampled, not enumerated; the structured fault space is complete for single faults on the "
                        "representative documents", "termination / polynomial time is decided by a per-call deadline, not proved"],
    }
    return simple.run_simple(pid, tier, plan, replay)


def c05(pid, tier, replay):
    n = 50 if tier == Q else 3000
    plan = {
        "module": "TraceTranslate", "cfg": "TraceTranslate.cfg", "own": r"^(parse\..*|idgen\..*)$",
        "design": [("IdGen", "IdGen.cfg", 900), ("TrCDX", "TrCDX_quick.cfg", 900)],
        "jobs": [{"cmd": ["parse-run", "--n", str(n), "--seed", str(seed() * 100 + i)], "label": "shard%d" % i} for i in range(10)],
        "replay_cmd": lambda path: ["parse-run", "--replay", path],
        "result_keys": ("results", "o", "id1", "id2"), "nontrivial": lambda e: True,
        "rule": "abstract schema-valid inputs: CycloneDX 1.3-1.5 component forests (depth <= 4, refs from a pool with the empty, "
                "repeated, spaced and non-ASCII ref, with and without metadata component) and SPDX 2.3 documents (1-3 elements, "
                "relationships to present, missing, NOASSERTION/NONE and document targets); each input is rendered in five JSON "
                "layouts (compact, whitespace, reversed member order, every string \\u-escaped, indented with sorted members) "
                "and every layout is parsed twice with auto-detection and once with the format stated; plus the public "
                "identifier generator on 15 seed tuples; distinct = (input, layout, mode)",
        "assumptions": ["relationships that involve the SPDX document element itself other than DESCRIBES are generated rarely "
                        "and reported under their own finding key",
                        "facts about strings (identifier-safe alphabet, reserved prefix) are computed by the harness"],
    }
    return simple.run_simple(pid, tier, plan, replay)


def c06(pid, tier, replay):
    n = 8 if tier == Q else 600
    plan = {
        "module": "TraceTranslate", "cfg": "TraceTranslate.cfg", "own": r"^sniff\..*$",
        "design": [("SniffModel", "SniffModel.cfg", 900)],
        "jobs": [{"cmd": ["sniff-run", "--n", str(n), "--seed", str(seed() * 100 + i)], "label": "shard%d" % i} for i in range(8)],
        "replay_cmd": lambda path: ["sniff-run", "--replay", path],
        "result_keys": ("o", "res", "err", "pos", "atype", "aversion", "aenc", "restlen"), "nontrivial": lambda e: True,
        "rule": "writer output of seeded SPDX- and CycloneDX-class documents in the four readable formats x four indentations x "
                "five JSON re-encodings (must be detected as exactly that format); near-miss declarations: the product of 10 "
                "bomFormat x 11 specVersion x 10 spdxVersion values (case variants, neighbouring versions, numbers, null, "
                "absent; a seeded third of the full product); tag-value and other non-JSON text; random bytes; after every "
                "detection the stream offset and the bytes still readable are logged; distinct by input bytes",
        "assumptions": ["a case-insensitive match of bomFormat counts as 'the declaration says so'",
                        "when both declarations are present either format is accepted"],
    }
    return simple.run_simple(pid, tier, plan, replay)


def conc_jobs(mode, tier, nshards):
    from common import build_harness as _bh
    racebin = _bh(race=True)
    n = 40 if tier == Q else 2500
    return [{"cmd": ["conc-run", "--racebin", racebin, "--mode", mode, "--n", str(n), "--seed", str(seed() * 100 + i)],
             "label": "%s-%d" % (mode, i)} for i in range(nshards)]


def c17(pid, tier, replay):
    def prepare(scratch, plan, vh):
        plan["jobs"] = conc_jobs("registry", tier, 10)

    plan = {
        "module": "TraceConc", "cfg": "TraceConc.cfg", "own": r"^conc\.(?!readonly|hook-missing).*$", "infra": r"^conc\.hook-missing$",
        "design": [("Registry", "Registry_locked.cfg", 900), ("RegistryProof", "RegistryProof.cfg", 900)],
        "proofs": ["RegistryProof"], "jobs": [], "prepare": prepare,
        "replay_cmd": lambda path: ["conc-run", "--racebin", __import__("common").build_harness(race=True), "--n", "40"],
        "result_keys": (), "nontrivial": lambda e: e.get("op") == "HIST",
        "rule": "seeded concurrent histories: 2-4 goroutines x 2-4 calls each over register / unregister / lookup of reader "
                "and writer drivers (two formats, fake drivers that reveal who served), parsing with the looked-up driver, "
                "tag-value format detection, and construction + use of readers and writers with options on independent "
                "documents; run in a -race build with the verif hooks on; every call is stamped at invocation and return "
                "from one atomic clock and the reader-registry hook stamps the linearization point inside the critical "
                "section; race reports and runtime aborts of the run are events",
        "assumptions": ["the race detector reports only real unsynchronised conflicting accesses; absence of a report is not a proof",
                        "goroutines start together behind a barrier but are otherwise free-running (no gates: gates would add "
                        "happens-before edges and hide races)"],
    }
    return simple.run_simple(pid, tier, plan, replay)


CHECKS = {"C17": c17, "C05": c05, "C06": c06, "C04": c04, "C07": c07, "C01": c01, "C02": c02, "C03": c03, "C19": c19, "C20": c20, "C18": c18, "C13": n13, "C14": n13, "C08": g08, "C09": g09, "C10": g09, "C11": g11, "C12": g12, "C15": g15, "C16": g16}
