"""Per-property plans: what is enumerated by TLC, what is generated, and how much, per tier."""
import graph

Q, T = "quick", "thorough"

ASSUME_GRAPH = [
    "projection (harness/proj) is total, order preserving and treats nil and empty collections as the same value",
    "node identifiers within one operand are unique (duplicate identifiers only in the lookup scripts)",
    "TLC and the CommunityModules Json/IOUtils overrides are correct",
]


def g08(pid, tier, replay):
    plan = {
        "design": [("GraphMachine", "GraphMachine_quick.cfg", 900)] if tier == Q else
                  [("GraphMachine", "GraphMachine_quick.cfg", 900), ("GraphMachine", "GraphMachine_depth2.cfg", 3000),
                   ("GraphMachine", "GraphMachine_types2.cfg", 3000)],
        "export": (96, 19) if tier == Q else (640, 23),
        "gens": [{"args": ["--mode", "edit", "--n", "400" if tier == Q else "4000", "--len", "10", "--ids", "5"]},
                 {"args": ["--mode", "edit", "--n", "60" if tier == Q else "600", "--len", "30", "--ids", "14", "--rich", "0.05"]}],
        "rule": "scripts = TLC simulation behaviours of GraphMachine (builders + editing operations) and seeded random "
                "editing histories over well-formed registers; a case is an (operation, operand values, arguments) "
                "triple, non-trivial when an operand has at least one node; distinct by hash of the projected operands",
        "assumptions": ASSUME_GRAPH,
    }
    return graph.run_graph(pid, tier, plan, replay)


CHECKS = {"C08": g08}
