"""Families whose traces are produced by one harness command per shard (no script phase):
the harness generates seeded cases, executes them on the real code and logs events; TLC judges."""
import json
import os
import re
import time

from common import (Infra, Scratch, build_harness, count_lines, load_known, log, parallel, run, seed, tlaps_design, tlc_design,
                    validate_trace, write_evidence, VERIF, BUILD)


def gen_schema(vh):
    os.makedirs(os.path.join(BUILD, "gen"), exist_ok=True)
    run([vh, "gen-schema", "--out", os.path.join(BUILD, "gen", "Schema.tla")])


def run_simple(pid, tier, plan, replay=None):
    """plan: design=[(module,cfg,timeout)], jobs=[dict(cmd=[...harness args without --out], label=str)],
    module, cfg (trace spec), own (regex), rule, assumptions, replay_cmd(path)->args, level"""
    t0 = time.time()
    scratch = Scratch()
    own = re.compile(plan["own"])
    known = load_known().get(pid, {})
    try:
        vh = build_harness()
        gen_schema(vh)
        design = []
        tlc_states = tlc_trans = 0
        if plan.get("prepare") and not replay:
            plan["prepare"](scratch, plan, vh)
        jobs = plan["jobs"]
        if replay:
            jobs = [{"cmd": plan["replay_cmd"](replay), "label": "replay"}]
        else:
            for (mod, cfg, to) in plan.get("design", []):
                d = tlc_design(scratch, mod, cfg, timeout=to)
                design.append(d)
                tlc_states += d["distinct"]
                tlc_trans += d["generated"]
            for mod in plan.get("proofs", []):
                design.append(tlaps_design(scratch, mod))

        def one(ij):
            i, job = ij
            trace = scratch.path("trace-%d.ndjson" % i)
            p = run([vh] + job["cmd"] + ["--out", trace], ok=(0,), timeout=plan.get("timeout", 3600), env=job.get("env"))
            verdicts, gen = validate_trace(scratch, plan["module"], plan["cfg"], trace, timeout=plan.get("timeout", 3600))
            return job["label"], trace, verdicts, gen, count_lines(trace)

        results = parallel(one, list(enumerate(jobs)))
        events = sum(r[4] for r in results)
        val_states = sum(r[3] for r in results)
        violations, knowns, observations = [], {}, {}
        bad = {}
        infra = re.compile(plan["infra"]) if plan.get("infra") else None
        infra_hits = []
        for label, trace, verdicts, gen, n in results:
            for sid, line, clause in verdicts:
                if infra and infra.match(clause):
                    infra_hits.append((clause, line, trace))
                    continue
                if own.match(clause):
                    if clause in known:
                        knowns[clause] = knowns.get(clause, 0) + 1
                    else:
                        violations.append((trace, sid, line, clause))
                        bad.setdefault((trace, line), set()).add(clause)
                else:
                    observations[clause] = observations.get(clause, 0) + 1
        if infra_hits and not violations:
            # a disagreement between the model's prediction and the observation channel, with no violation to explain it
            raise Infra("the model and the observation channel disagree (%s at line %d of %s): not a verdict" % infra_hits[0])
        # distinct non-trivial cases and samples
        distinct, samples, byop = set(), [], {}
        strip = plan.get("result_keys", ())
        for label, trace, verdicts, gen, n in results:
            with open(trace) as f:
                for k, line in enumerate(f):
                    ev = json.loads(line)
                    byop[ev.get("op")] = byop.get(ev.get("op"), 0) + 1
                    case = {k2: v for k2, v in ev.items() if k2 not in strip and k2 != "sid"}
                    if plan.get("nontrivial", lambda e: True)(ev):
                        distinct.add(hash(json.dumps(case, sort_keys=True)))
                    if k < 2 and len(samples) < 4:
                        samples.append(ev)
        replay_paths = []
        for i, ((trace, line), clauses) in enumerate(sorted(bad.items())[:5]):
            dest = os.path.join(VERIF, "replay", "%s-seed%d-%d.ndjson" % (pid, seed(), i))
            os.makedirs(os.path.dirname(dest), exist_ok=True)
            with open(trace) as f, open(dest, "w") as o:
                lines = f.readlines()
                if plan.get("replay_whole_script"):
                    sid = json.loads(lines[line - 1]).get("sid")
                    for ln in lines[:line]:
                        if json.loads(ln).get("sid") == sid:
                            o.write(ln)
                else:
                    o.write(lines[line - 1])
            replay_paths.append((dest, sorted(clauses)))
        nbad = len(bad)
        coverage = {
            "states": max(1, tlc_states + val_states), "transitions": max(1, tlc_trans + val_states),
            "design_checks": design, "trace_validation_states": val_states,
            "traces_validated_against_impl": max(0, events - nbad), "evaluations": events,
            "distinct_nontrivial": len(distinct), "rule": plan.get("rule", ""), "events_by_kind": byop,
            "samples": samples or [{"note": "no events"}], "clauses_owned": plan["own"],
            "observations_not_owned": observations, "known_findings_hit": knowns,
            "violating_clauses": sorted({c for (_, _, _, c) in violations}), "exhaustive": bool(plan.get("exhaustive", False)),
        }
        coverage.update(plan.get("extra_coverage", {}))
        if not replay and plan.get("merge_into_existing"):
            # second stage of a check: fold this stage's coverage into the evidence the first stage wrote
            path = os.path.join(VERIF, "evidence", pid + ".json")
            ev = json.load(open(path))
            ev["coverage"][plan["merge_into_existing"]] = coverage
            ev["coverage"]["states"] += coverage["states"]
            ev["coverage"]["transitions"] += coverage["transitions"]
            ev["coverage"]["traces_validated_against_impl"] += coverage["traces_validated_against_impl"]
            ev["violations"] = ev.get("violations", 0) + len(violations)
            ev["wall_s"] = round(ev["wall_s"] + time.time() - t0, 1)
            ev["assumptions"] = ev.get("assumptions", []) + plan.get("assumptions", [])
            json.dump(ev, open(path, "w"), indent=1, ensure_ascii=False)
        elif not replay:
            write_evidence(pid, tier, plan.get("level", "model_checking"), coverage, plan.get("assumptions", []),
                           time.time() - t0, len(violations))
        for k, n in sorted(knowns.items()):
            print("KNOWN-FINDING: property=%s %s (%d occurrences) %s" % (pid, k, n, known[k]))
        if violations:
            for dest, clauses in replay_paths:
                print("VIOLATION property=%s replay=%s clauses=%s" % (pid, dest, ",".join(clauses)))
            return 1
        log("%s %s: ok, %d events, %.0fs" % (pid, tier, events, time.time() - t0))
        return 0
    finally:
        scratch.cleanup()
