------------------------------- MODULE Config --------------------------------
(***************************************************************************)
(* Reader / writer configuration (C18).  Every constructor call creates an *)
(* instance whose configuration is the library defaults overridden by the  *)
(* options given to that call; nothing else changes (frame: all other      *)
(* instances and the defaults).  A per-call option overrides the           *)
(* instance's value for that call only.                                    *)
(* Shared = TRUE models the pre-fix code (every instance points at the     *)
(* package default object): TLC refutes DefaultsIntact at depth 2.         *)
(***************************************************************************)
EXTENDS Integers, Sequences, FiniteSets, TLC, Json

CONSTANTS Shared, MaxInst, MaxSteps

Opts == {"format", "indent", "noclobber", "fopt"}
Vals == [format |-> {"cdx15", "spdx23"}, indent |-> {"2", "8"}, noclobber |-> {"true"}, fopt |-> {"v1", "v2"}]
Defaults == [format |-> "", indent |-> "4", noclobber |-> "false", fopt |-> ""]
OptSets == UNION {[S -> UNION {Vals[o] : o \in Opts}] : S \in SUBSET Opts}
GoodOptSets == {f \in OptSets : \A o \in DOMAIN f : f[o] \in Vals[o]}
Over(base, f) == [o \in DOMAIN base |-> IF o \in DOMAIN f THEN f[o] ELSE base[o]]

VARIABLES heap,    \* object id -> configuration record; object 0 is the package default
          insts,   \* sequence of [obj |-> object id, own |-> options given to the constructor]
          used,    \* format used by the last write, for the override clause
          script   \* the calls made so far (simulation export; hidden from the exhaustive run by VIEW)
vars == <<heap, insts, used, script>>
view == <<heap, insts, used>>

Init == heap = [i \in {0} |-> Defaults] /\ insts = <<>> /\ used = "none" /\ script = <<[op |-> "Reset"]>>
New(f) == /\ Len(insts) < MaxInst
          /\ IF Shared
             THEN /\ heap' = [heap EXCEPT ![0] = Over(heap[0], f)]   \* options write through the shared pointer
                  /\ insts' = Append(insts, [obj |-> 0, own |-> f])
             ELSE LET id == Len(insts) + 1 IN
                  /\ heap' = [i \in DOMAIN heap \cup {id} |-> IF i = id THEN Over(Defaults, f) ELSE heap[i]]
                  /\ insts' = Append(insts, [obj |-> id, own |-> f])
          /\ UNCHANGED used
          /\ script' = Append(script, [op |-> "NewWriter", opts |-> f])
WriteWith(i, callfmt) == /\ i \in DOMAIN insts
                         /\ script' = Append(script, [op |-> "Write", i |-> i, callfmt |-> callfmt])
                         /\ used' = IF callfmt # "" THEN callfmt ELSE heap[insts[i].obj].format
                         /\ UNCHANGED <<heap, insts>>
\* a call through the recording driver: the format options / render options given to the call are the ones the
\* driver sees; what was not given comes from the instance.  Nothing persists.
Effective(i, callfopt, callindent) ==
  [fopt   |-> IF callfopt # "" THEN callfopt ELSE heap[insts[i].obj].fopt,
   indent |-> IF callindent # "" THEN callindent ELSE heap[insts[i].obj].indent]
CallWith(i, callfopt, callindent) ==
  /\ i \in DOMAIN insts
  /\ script' = Append(script, [op |-> "WriteCall", i |-> i, callfopt |-> callfopt, callindent |-> callindent])
  /\ used' = Effective(i, callfopt, callindent).fopt \o "/" \o Effective(i, callfopt, callindent).indent
  /\ UNCHANGED <<heap, insts>>
Step == \/ \E f \in GoodOptSets : New(f)
        \/ \E i \in 1..MaxInst, c \in {"", "cdx15", "spdx23"} : WriteWith(i, c)
        \/ \E i \in 1..MaxInst, cf \in {"", "c1"}, ci \in {"", "3"} : CallWith(i, cf, ci)
Finish == Len(script) = MaxSteps + 1 /\ script' = Append(script, [op |-> "End"]) /\ UNCHANGED <<heap, insts, used>>
Next == (Len(script) <= MaxSteps /\ Step) \/ Finish
Spec == Init /\ [][Next]_vars
PrintScript == Len(script) = MaxSteps + 2 => PrintT(<<"SCRIPT", ToJson(script)>>)

ConfigOf(i) == heap[insts[i].obj]
Isolation == \A i \in DOMAIN insts : ConfigOf(i) = Over(Defaults, insts[i].own)
DefaultsIntact == heap[0] = Defaults
=============================================================================
