SPECIFICATION Spec
CONSTANTS
  Shared = FALSE
  MaxInst = 3
  MaxSteps = 4
VIEW view
INVARIANTS Isolation DefaultsIntact
CHECK_DEADLOCK FALSE
