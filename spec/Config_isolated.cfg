SPECIFICATION Spec
CONSTANTS
  Shared = FALSE
  MaxInst = 3
INVARIANTS Isolation DefaultsIntact
CHECK_DEADLOCK FALSE
