SPECIFICATION Spec
CONSTANTS
  Shared = TRUE
  MaxInst = 3
INVARIANTS Isolation DefaultsIntact
CHECK_DEADLOCK FALSE
