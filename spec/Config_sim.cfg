SPECIFICATION Spec
CONSTANTS
  Shared = FALSE
  MaxInst = 5
  MaxSteps = 9
INVARIANTS Isolation DefaultsIntact PrintScript
CHECK_DEADLOCK FALSE
