SPECIFICATION Spec
CONSTANTS
  Family = "export-extract"
  IdsU = {"a", "b", "c"}
  Ghost = "g"
  TypesU = {5}
  AttrVals = {"", "x", "y"}
  CandTriples <- ct_quick
  CandRoots = {"a", "g"}
  Dangling = TRUE
  ThirdNode = FALSE
  KindsU = {0, 1}
  Triple = FALSE
  MaxDepth = 3

CHECK_DEADLOCK FALSE
