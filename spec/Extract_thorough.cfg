SPECIFICATION Spec
CONSTANTS
  Family = "extract"
  IdsU = {"a", "b", "c"}
  Ghost = "g"
  TypesU = {5, 10}
  AttrVals = {"", "x", "y"}
  CandTriples <- ct_quick
  CandRoots = {"a", "g"}
  Dangling = FALSE
  ThirdNode = FALSE
  KindsU = {0, 1}
  Triple = FALSE
  MaxDepth = 3
INVARIANTS ExtractLawsLight
CHECK_DEADLOCK FALSE
