---------------------------- MODULE GraphAlgebra ----------------------------
(***************************************************************************)
(* The set-level graph algebra behind ListOps.tla, with machine-checked     *)
(* (TLAPS) proofs that hold for EVERY graph, not only for the bounded       *)
(* universes TLC enumerates.                                               *)
(*                                                                         *)
(* A graph view is a record [ids, tri, roots]: the set of node identifiers, *)
(* the set of edge triples <<from, type, to>> and the set of root          *)
(* identifiers.  ListOps.tla computes exactly these views from a projected *)
(* sbom.NodeList (Ids, Triples, Roots) and its operators UnionF, AddF,      *)
(* IntersectLo/Hi, RemoveF, RelateListF are defined through the set         *)
(* expressions used below; GraphLaws.tla checks with TLC that the two      *)
(* levels agree (ViewAgreement).  What is proved here is therefore the     *)
(* design-level half of C08, C09 and C10 without a bound: closure of        *)
(* well-formedness under every editing operation, and the algebraic laws   *)
(* of union and intersection.  The code is bound to ListOps by trace       *)
(* validation (TraceGraph.tla), not by these proofs.                       *)
(***************************************************************************)


IsView(g) == g = [ids |-> g.ids, tri |-> g.tri, roots |-> g.roots]

EdgeClosed(g) == \A t \in g.tri : t[1] \in g.ids /\ t[3] \in g.ids
Closed(g)     == EdgeClosed(g) /\ g.roots \subseteq g.ids

Restrict(T, I) == {t \in T : t[1] \in I /\ t[3] \in I}

UnionV(a, b) == [ids   |-> a.ids \cup b.ids,
                 tri   |-> Restrict(a.tri \cup b.tri, a.ids \cup b.ids),
                 roots |-> a.roots \cup b.roots]

InterLo(a, b) == [ids   |-> a.ids \cap b.ids,
                  tri   |-> Restrict(a.tri \cap b.tri, a.ids \cap b.ids),
                  roots |-> (a.roots \cap b.roots) \cap (a.ids \cap b.ids)]
InterHi(a, b) == [ids   |-> a.ids \cap b.ids,
                  tri   |-> Restrict(a.tri \cup b.tri, a.ids \cap b.ids),
                  roots |-> (a.roots \cup b.roots) \cap (a.ids \cap b.ids)]
\* an observed intersection lies between the two
Between(r, a, b) == /\ r.ids = a.ids \cap b.ids
                    /\ InterLo(a, b).tri \subseteq r.tri /\ r.tri \subseteq InterHi(a, b).tri
                    /\ InterLo(a, b).roots \subseteq r.roots /\ r.roots \subseteq InterHi(a, b).roots

RemoveV(a, D) == [ids   |-> a.ids \ D,
                  tri   |-> Restrict(a.tri, a.ids \ D),
                  roots |-> a.roots \ D]
\* the pinned revision before fix 4e57130: removed identifiers stay in the root list
RemoveKeepRootsV(a, D) == [ids |-> a.ids \ D, tri |-> Restrict(a.tri, a.ids \ D), roots |-> a.roots]

RelateNodeV(a, n, at, ty) ==
  IF at \notin a.ids THEN a
  ELSE [ids |-> a.ids \cup {n}, tri |-> a.tri \cup {<<at, ty, n>>}, roots |-> a.roots]

RelateListV(a, b, at, ty) ==
  IF at \notin a.ids THEN a
  ELSE [ids   |-> a.ids \cup b.ids,
        tri   |-> a.tri \cup b.tri \cup {<<at, ty, r>> : r \in b.roots},
        roots |-> a.roots]

\* the sub-graph induced by a set of identifiers, with chosen roots
Induced(a, K, R) == [ids |-> K, tri |-> Restrict(a.tri, K), roots |-> R]

-----------------------------------------------------------------------------
(* C08: every editing operation keeps a closed graph closed *)

THEOREM UnionClosed == \A a, b : Closed(a) /\ Closed(b) => Closed(UnionV(a, b))
  BY DEF Closed, EdgeClosed, UnionV, Restrict

\* stronger: the union is EDGE-closed whatever the operands are (cleanEdges restricts)
THEOREM UnionEdgeClosedAlways == \A a, b : EdgeClosed(UnionV(a, b))
  BY DEF EdgeClosed, UnionV, Restrict

THEOREM InterLoClosedAlways == \A a, b : Closed(InterLo(a, b))
  BY DEF Closed, EdgeClosed, InterLo, Restrict

THEOREM InterHiClosedAlways == \A a, b : Closed(InterHi(a, b))
  BY DEF Closed, EdgeClosed, InterHi, Restrict

THEOREM BetweenClosed == \A r, a, b : Between(r, a, b) => Closed(r)
  BY DEF Between, Closed, EdgeClosed, InterLo, InterHi, Restrict

THEOREM RemoveClosed == \A a, D : Closed(a) => Closed(RemoveV(a, D))
  BY DEF Closed, EdgeClosed, RemoveV, Restrict

THEOREM RemoveRemoves == \A a, D : RemoveV(a, D).ids \cap D = {} /\ RemoveV(a, D).roots \cap D = {}
  BY DEF RemoveV

\* the defect: keeping the roots is closed only when no root is removed
THEOREM RemoveKeepRootsClosedIff ==
  \A a, D : Closed(a) => (Closed(RemoveKeepRootsV(a, D)) <=> a.roots \cap D = {})
  BY DEF Closed, EdgeClosed, RemoveKeepRootsV, Restrict

THEOREM RelateNodeClosed == \A a, n, at, ty : Closed(a) => Closed(RelateNodeV(a, n, at, ty))
  BY DEF Closed, EdgeClosed, RelateNodeV

THEOREM RelateListClosed == \A a, b, at, ty : Closed(a) /\ Closed(b) => Closed(RelateListV(a, b, at, ty))
  BY DEF Closed, EdgeClosed, RelateListV

THEOREM InducedClosed == \A a, K, R : R \subseteq K => Closed(Induced(a, K, R))
  BY DEF Closed, EdgeClosed, Induced, Restrict

-----------------------------------------------------------------------------
(* C09: laws of union on the structure *)

THEOREM UnionCommutes == \A a, b : UnionV(a, b) = UnionV(b, a)
  BY DEF UnionV, Restrict

LEMMA RestrictAll == \A T, I : (\A t \in T : t[1] \in I /\ t[3] \in I) => Restrict(T, I) = T
  BY DEF Restrict

THEOREM UnionIdempotent == \A a : IsView(a) /\ EdgeClosed(a) => UnionV(a, a) = a
  <1> TAKE a
  <1> HAVE IsView(a) /\ EdgeClosed(a)
  <1>1. Restrict(a.tri \cup a.tri, a.ids \cup a.ids) = a.tri
    BY DEF Restrict, EdgeClosed
  <1> QED BY <1>1 DEF UnionV, IsView

THEOREM UnionMonotone == \A a, b : /\ a.ids \subseteq UnionV(a, b).ids
                                   /\ a.roots \subseteq UnionV(a, b).roots
                                   /\ EdgeClosed(a) => a.tri \subseteq UnionV(a, b).tri
  BY DEF UnionV, Restrict, EdgeClosed

\* associativity needs edge-closed operands: an edge of a that points into c's nodes is cut by
\* (a U b) but kept by a U (b U c).  TLC exhibits the counterexample (GraphLaws_assoc.cfg).
THEOREM UnionAssociative ==
  \A a, b, c : EdgeClosed(a) /\ EdgeClosed(b) /\ EdgeClosed(c)
               => UnionV(UnionV(a, b), c) = UnionV(a, UnionV(b, c))
  <1> TAKE a, b, c
  <1> HAVE EdgeClosed(a) /\ EdgeClosed(b) /\ EdgeClosed(c)
  <1>1. UnionV(a, b).tri = a.tri \cup b.tri
    BY DEF UnionV, Restrict, EdgeClosed
  <1>2. UnionV(b, c).tri = b.tri \cup c.tri
    BY DEF UnionV, Restrict, EdgeClosed
  <1>3. Restrict((a.tri \cup b.tri) \cup c.tri, (a.ids \cup b.ids) \cup c.ids) = a.tri \cup b.tri \cup c.tri
    BY DEF Restrict, EdgeClosed
  <1>4. Restrict(a.tri \cup (b.tri \cup c.tri), a.ids \cup (b.ids \cup c.ids)) = a.tri \cup b.tri \cup c.tri
    BY DEF Restrict, EdgeClosed
  <1>5. UnionV(UnionV(a, b), c).tri = a.tri \cup b.tri \cup c.tri
    BY <1>1, <1>3 DEF UnionV
  <1>6. UnionV(a, UnionV(b, c)).tri = a.tri \cup b.tri \cup c.tri
    BY <1>2, <1>4 DEF UnionV
  <1>7. UnionV(UnionV(a, b), c).ids = UnionV(a, UnionV(b, c)).ids
    BY DEF UnionV
  <1>8. UnionV(UnionV(a, b), c).roots = UnionV(a, UnionV(b, c)).roots
    BY DEF UnionV
  <1> QED BY <1>5, <1>6, <1>7, <1>8 DEF UnionV

-----------------------------------------------------------------------------
(* C10: laws of intersection on the structure *)

THEOREM InterCommutes == \A a, b : InterLo(a, b) = InterLo(b, a) /\ InterHi(a, b) = InterHi(b, a)
  BY DEF InterLo, InterHi, Restrict

THEOREM InterLoBelowHi == \A a, b : /\ InterLo(a, b).tri \subseteq InterHi(a, b).tri
                                    /\ InterLo(a, b).roots \subseteq InterHi(a, b).roots
  BY DEF InterLo, InterHi, Restrict

THEOREM InterWithin == \A r, a, b : Between(r, a, b) => /\ r.ids \subseteq a.ids /\ r.ids \subseteq b.ids
                                                        /\ r.tri \subseteq a.tri \cup b.tri
                                                        /\ r.roots \subseteq a.roots \cup b.roots
  BY DEF Between, InterLo, InterHi, Restrict

THEOREM InterIdempotent == \A a : IsView(a) /\ Closed(a) => InterLo(a, a) = a /\ InterHi(a, a) = a
  <1> TAKE a
  <1> HAVE IsView(a) /\ Closed(a)
  <1>1. Restrict(a.tri \cap a.tri, a.ids \cap a.ids) = a.tri
    BY DEF Restrict, Closed, EdgeClosed
  <1>2. Restrict(a.tri \cup a.tri, a.ids \cap a.ids) = a.tri
    BY DEF Restrict, Closed, EdgeClosed
  <1>3. (a.roots \cap a.roots) \cap (a.ids \cap a.ids) = a.roots
    BY DEF Closed
  <1>4. (a.roots \cup a.roots) \cap (a.ids \cap a.ids) = a.roots
    BY DEF Closed
  <1> QED BY <1>1, <1>2, <1>3, <1>4 DEF InterLo, InterHi, IsView

\* absorption: intersecting a closed graph with a union that contains it gives the graph back
THEOREM Absorption == \A a, b : IsView(a) /\ Closed(a) /\ EdgeClosed(b) => InterLo(a, UnionV(a, b)) = a
  <1> TAKE a, b
  <1> HAVE IsView(a) /\ Closed(a) /\ EdgeClosed(b)
  <1>1. UnionV(a, b).tri = a.tri \cup b.tri
    BY DEF UnionV, Restrict, Closed, EdgeClosed
  <1>2. a.ids \cap UnionV(a, b).ids = a.ids
    BY DEF UnionV
  <1>3. Restrict(a.tri \cap UnionV(a, b).tri, a.ids \cap UnionV(a, b).ids) = a.tri
    BY <1>1, <1>2 DEF Restrict, Closed, EdgeClosed
  <1>4. (a.roots \cap UnionV(a, b).roots) \cap (a.ids \cap UnionV(a, b).ids) = a.roots
    BY <1>2 DEF UnionV, Closed
  <1> QED BY <1>2, <1>3, <1>4 DEF InterLo, IsView

=============================================================================
