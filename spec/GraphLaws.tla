------------------------------ MODULE GraphLaws ------------------------------
(***************************************************************************)
(* Algebraic laws of the functional references in ListOps, checked by TLC  *)
(* over complete small universes (C09, C10, C15, C16).  The operands are   *)
(* chosen in two steps (Pick1, Pick2, [Pick3]) so that TLC's workers share *)
(* the enumeration; the laws are invariants of the states that hold a      *)
(* complete case.  The same operators judge the real code in TraceGraph.   *)
(***************************************************************************)
EXTENDS ListOps, Json, IOUtils

CONSTANTS Family,     \* "merge" | "extract" | "match"
          IdsU, Ghost, TypesU, AttrVals,
          CandTriples, \* candidate edges (from, type, to) for the merge universe (may mention Ghost)
          CandRoots,   \* candidate root entries for the merge universe (may mention Ghost)
          Dangling,    \* TRUE: extraction graphs may have edges to the Ghost identifier
          ThirdNode,   \* TRUE: match lists have up to three nodes
          KindsU,      \* node kinds in the match universe
          Triple,      \* TRUE: also pick a third operand (associativity)
          MaxDepth

VARIABLES x, y, z, stage
vars == <<x, y, z, stage>>

NodeVal(id, a) == IF a = "" THEN [id |-> id, type |-> 0] ELSE [id |-> id, type |-> 0, name |-> a]
NodeSets(S) == {{NodeVal(id, f[id]) : id \in S} : f \in [S -> AttrVals]}
\* merge universe: arbitrary (also ill-formed) lists: dangling edge ends and roots
UMerge == UNION {UNION {{FromViews(N, T, R) : T \in SUBSET CandTriples, R \in SUBSET CandRoots} : N \in NodeSets(S)} : S \in SUBSET IdsU}
\* extraction universe: all directed multigraphs on IdsU (no attributes), arbitrary root sets, dangling targets
AllIds == IdsU \cup {Ghost}
\* chosen in two halves (x: edges leaving the first identifier and the roots; y: the remaining edges) so workers share
FirstId == CHOOSE i \in IdsU : TRUE
Targets == IF Dangling THEN AllIds ELSE IdsU
UExtract == {FromViews({NodeVal(id, "") : id \in IdsU}, T, R) : T \in SUBSET ({FirstId} \X TypesU \X Targets), R \in SUBSET IdsU}
ExtraTriples == (IdsU \ {FirstId}) \X TypesU \X Targets
G == FromViews(NodeSet(x), Triples(x) \cup Triples(y), Roots(x))

(* match universe: nodes with two hash algorithms and an optional purl *)
HashVals == {"", "v", "w"}
PurlVals == {"", "p", "q"}
MNode(id, k, h1, h2, p) ==
  LET hs == (IF h1 = "" THEN <<>> ELSE <<<<1, h1>>>>) \o (IF h2 = "" THEN <<>> ELSE <<<<2, h2>>>>)
      base == [id |-> id, type |-> k]
      withH == IF hs = <<>> THEN base ELSE [f \in {"id", "type", "hashes"} |-> IF f = "hashes" THEN hs ELSE base[f]]
  IN IF p = "" THEN withH
     ELSE [f \in DOMAIN withH \cup {"identifiers"} |-> IF f = "identifiers" THEN <<<<1, p>>>> ELSE withH[f]]
MNodes(id) == {MNode(id, k, h1, h2, p) : k \in KindsU, h1 \in HashVals, h2 \in HashVals, p \in PurlVals}

\* Family = "export": the merge universe is written out (one projected list per element) so that the harness can run the
\* real operations on ALL ordered pairs of it
ASSUME Family = "export" => JsonSerialize(IOEnv.VH_EXPORT, [all |-> UMerge])
\* Family = "export-extract": every graph on IdsU (all edge sets over one type, dangling targets included, all root sets)
UExtractAll == {FromViews({NodeVal(id, "") : id \in IdsU}, T, R) : T \in SUBSET (IdsU \X TypesU \X Targets), R \in SUBSET IdsU}
ASSUME Family = "export-extract" => JsonSerialize(IOEnv.VH_EXPORT, [all |-> UExtractAll])
Universe == IF Family = "merge" THEN UMerge ELSE IF Family = "extract" THEN UExtract ELSE {EmptyList}

Init == x = EmptyList /\ y = EmptyList /\ z = EmptyList /\ stage = 0
Pick1 == stage = 0 /\ stage' = 1 /\ UNCHANGED <<y, z>> /\
         IF Family = "match"
         THEN \E n1 \in MNodes("a"), n2 \in MNodes("b") : x' = [nodes |-> <<n1, n2>>, edges |-> <<>>, roots |-> <<>>]
         ELSE x' \in Universe
Pick2 == stage = 1 /\ stage' = 2 /\ UNCHANGED <<x, z>> /\
         IF Family = "merge" THEN y' \in Universe
         ELSE IF Family = "extract" THEN y' \in {FromViews({}, T, {}) : T \in SUBSET ExtraTriples}
         ELSE IF Family = "match"
         THEN \E n3 \in (IF ThirdNode THEN MNodes("c") ELSE {}) \cup {[id |-> "none", type |-> 0]}, p \in MNodes("probe") :
                y' = [nodes |-> <<n3, p>>, edges |-> <<>>, roots |-> <<>>]
         ELSE y' = y
Pick3 == stage = 2 /\ Triple /\ stage' = 3 /\ UNCHANGED <<x, y>> /\ z' \in Universe
Next == Pick1 \/ Pick2 \/ Pick3
Spec == Init /\ [][Next]_vars

SameSets(a, b) == Ids(a) = Ids(b) /\ Roots(a) = Roots(b) /\ Triples(a) = Triples(b)

(* ------------------------------- C09 / C10 ------------------------------ *)
MergeLaws == (Family = "merge" /\ stage = 2) =>
  /\ MergeContract(UnionF(x, y), x, y, Update) = ""
  /\ MergeContract(AddF(x, y), x, y, Augment) = ""
  /\ SameSets(UnionF(x, y), UnionF(y, x))                       \* commutative
  /\ SameSets(UnionF(x, x), Clean(x)) /\ Same(UnionF(x, x), Clean(x))   \* idempotent
  /\ Same(UnionF(x, EmptyList), Clean(x)) /\ Same(UnionF(EmptyList, x), Clean(x))  \* identity
  /\ SameSets(AddF(x, y), UnionF(x, y))
  /\ (WellFormed(x) /\ WellFormed(y) => WellFormed(UnionF(x, y)) /\ Normalised(UnionF(x, y)))
  \* intersection: both ends of the contract satisfy the contract and the laws
  /\ \A I \in {IntersectLo(x, y), IntersectHi(x, y)} : IntersectContract(I, x, y) = ""
  /\ SameSets(IntersectLo(x, y), IntersectLo(y, x)) /\ SameSets(IntersectHi(x, y), IntersectHi(y, x))
  /\ SameSets(IntersectLo(x, x), CleanStrict(x)) /\ SameSets(IntersectHi(x, x), CleanStrict(x))
  /\ Ids(IntersectLo(x, UnionF(x, y))) = Ids(x) /\ Ids(IntersectHi(x, UnionF(x, y))) = Ids(x)
  /\ Same(IntersectLo(x, EmptyList), EmptyList) /\ Same(IntersectHi(EmptyList, x), EmptyList)
  /\ (WellFormed(x) /\ WellFormed(y) => WellFormed(IntersectLo(x, y)) /\ WellFormed(IntersectHi(x, y)))
  \* attribute precedence on a shared node: argument wins for union, receiver for add
  /\ \A id \in Ids(x) \cap Ids(y) :
       LET a == NodeOf(x, id) b == NodeOf(y, id) IN
         /\ Field(NodeOf(UnionF(x, y), id), "name", "") = (IF Field(b, "name", "") # "" THEN b.name ELSE Field(a, "name", ""))
         /\ Field(NodeOf(AddF(x, y), id), "name", "") = (IF Field(a, "name", "") # "" THEN a.name ELSE Field(b, "name", ""))
\* With dangling edges the set definition of union is not associative (an edge end missing in x and y may
\* be a node of z); TLC exhibits that when AssocAll is checked.  The law is asserted for edge-closed operands.
AssocAll == (Family = "merge" /\ stage = 3) => SameSets(UnionF(UnionF(x, y), z), UnionF(x, UnionF(y, z)))
Associative == (Family = "merge" /\ stage = 3 /\ EdgeClosed(x) /\ EdgeClosed(y) /\ EdgeClosed(z)) =>
  SameSets(UnionF(UnionF(x, y), z), UnionF(x, UnionF(y, z)))

(* --------- agreement with the set-level algebra proved in GraphAlgebra.tla (TLAPS) --------- *)
GA == INSTANCE GraphAlgebra
ViewOf(l) == [ids |-> Ids(l), tri |-> Triples(l), roots |-> Roots(l)]
ViewAgreement == (Family = "merge" /\ stage = 2) =>
  /\ ViewOf(UnionF(x, y)) = GA!UnionV(ViewOf(x), ViewOf(y))
  /\ ViewOf(AddF(x, y)) = GA!UnionV(ViewOf(x), ViewOf(y))
  /\ ViewOf(IntersectLo(x, y)) = GA!InterLo(ViewOf(x), ViewOf(y))
  /\ ViewOf(IntersectHi(x, y)) = GA!InterHi(ViewOf(x), ViewOf(y))
  /\ \A D \in SUBSET (IdsU \cup {Ghost}) :
        /\ ViewOf(RemoveF(x, D)) = GA!RemoveV(ViewOf(x), D)
        /\ ViewOf(RemoveKeepRootsF(x, D)) = GA!RemoveKeepRootsV(ViewOf(x), D)
  /\ \A at \in IdsU \cup {Ghost}, t \in TypesU :
        ViewOf(RelateListF(x, y, at, t)) = GA!RelateListV(ViewOf(x), ViewOf(y), at, t)
  /\ (Closed(x) <=> GA!Closed(ViewOf(x))) /\ (EdgeClosed(x) <=> GA!EdgeClosed(ViewOf(x)))

(* --------------------------------- C15 ---------------------------------- *)
ExtractLaws == (Family = "extract" /\ stage = 2) =>
  \A s \in IdsU :
    /\ ExtractContract(GraphF(G, s), G, s, GraphIds(G, s), Followed(G, s, GraphIds(G, s))) = ""
    /\ ExtractContract(SiblingsF(G, s), G, s, SiblingIds(G, s), {t \in Induced(G, SiblingIds(G, s)) : t[1] = s}) = ""
    /\ WellFormed(GraphF(G, s)) /\ Normalised(GraphF(G, s)) /\ WellFormed(SiblingsF(G, s))
    /\ Reach(G, s, 1) = {s}
    /\ \A k \in 1..MaxDepth :
         /\ Reach(G, s, k) \subseteq Reach(G, s, k + 1)                          \* monotone in the depth
         /\ WellFormed(DescendantsF(G, s, k)) /\ Normalised(DescendantsF(G, s, k))
         /\ ExtractContract(DescendantsF(G, s, k), G, s, Reach(G, s, k),
                            {t \in Followed(G, s, Reach(G, s, k)) : t[1] \in Reach(G, s, k - 1)}) = ""
    /\ Reach(G, s, MaxDepth + 1) = ReachAll(G, s)                                \* saturates
    /\ GraphIds(G, s) = ReachAll(G, s) \ (Roots(G) \ {s})                        \* other roots are left out
    \* a root other than the start is reached but never traversed through
    /\ \A n \in ReachAll(G, s) : n = s \/ \E t \in Triples(G) : t[3] = n /\ t[1] \in ReachAll(G, s) /\ Expandable(G, s, t[1])

\* the set-level part of the same laws (no functional references): cheap enough for the two-type universe
ExtractLawsLight == (Family = "extract" /\ stage = 2) =>
  \A s \in IdsU :
    /\ Reach(G, s, 1) = {s}
    /\ \A k \in 1..MaxDepth : Reach(G, s, k) \subseteq Reach(G, s, k + 1)
    /\ Reach(G, s, MaxDepth + 1) = ReachAll(G, s)
    /\ GraphIds(G, s) = ReachAll(G, s) \ (Roots(G) \ {s})
    /\ SiblingIds(G, s) = {s} \cup Succ(G, s)
    /\ \A n \in ReachAll(G, s) : n = s \/ \E t \in Triples(G) : t[3] = n /\ t[1] \in ReachAll(G, s) /\ Expandable(G, s, t[1])
    /\ \A t \in Followed(G, s, GraphIds(G, s)) : t \in Induced(G, GraphIds(G, s))

(* --------------------------------- C16 ---------------------------------- *)
Perms3(s) == IF Len(s) = 3 THEN {<<s[1], s[2], s[3]>>, <<s[1], s[3], s[2]>>, <<s[2], s[1], s[3]>>,
                                 <<s[2], s[3], s[1]>>, <<s[3], s[1], s[2]>>, <<s[3], s[2], s[1]>>}
             ELSE {s, <<s[2], s[1]>>}
MatchLaws == (Family = "match" /\ stage = 2) =>
  LET probe == y.nodes[2]
      nodes == IF y.nodes[1].id = "none" THEN x.nodes ELSE Append(x.nodes, y.nodes[1])
      g == [nodes |-> nodes, edges |-> <<>>, roots |-> <<>>]
      m == Match(g, probe)
  IN /\ m.kind \in {"none", "node", "ambiguous"}
     /\ (m.kind = "node" => Cardinality(m.idx) = 1 /\ m.idx \subseteq DOMAIN g.nodes)      \* a node of the list, unique
     /\ \A p \in Perms3(nodes) :                                                        \* independent of the order
          LET m2 == Match([g EXCEPT !.nodes = p], probe) IN
            m2.kind = m.kind /\ (m.kind = "node" => NodesAt([g EXCEPT !.nodes = p], m2.idx) = NodesAt(g, m.idx))
     \* the documented rule
     /\ LET H == {i \in DOMAIN nodes : HashesMatch(nodes[i], probe)}
            P(S) == {i \in S : PurlOf(probe) # "" /\ PurlOf(nodes[i]) = PurlOf(probe)}
        IN /\ (Cardinality(H) = 1 => m.kind = "node" /\ m.idx = H)
           /\ (H = {} /\ Cardinality(P(DOMAIN nodes)) = 1 => m.kind = "node" /\ m.idx = P(DOMAIN nodes))
           /\ (H = {} /\ P(DOMAIN nodes) = {} => m.kind = "none")
           /\ (H = {} /\ Cardinality(P(DOMAIN nodes)) > 1 => m.kind = "ambiguous")
           /\ (Cardinality(H) > 1 /\ Cardinality(P(H)) = 1 => m.kind = "node" /\ m.idx = P(H))
           /\ (Cardinality(H) > 1 /\ Cardinality(P(H)) # 1 => m.kind = "ambiguous")
           /\ (probe.type = 1 => P(DOMAIN nodes) = {})                                    \* files have no purl
=============================================================================
