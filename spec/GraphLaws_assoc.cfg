SPECIFICATION Spec
CONSTANTS
  Family = "merge"
  IdsU = {"a", "b"}
  Ghost = "g"
  TypesU = {5}
  AttrVals = {"", "x"}
  CandTriples <- ct_assoc
  CandRoots = {"a", "g"}
  Dangling = TRUE
  ThirdNode = FALSE
  KindsU = {0, 1}
  Triple = TRUE
  MaxDepth = 3
INVARIANTS MergeLaws Associative
CHECK_DEADLOCK FALSE
