SPECIFICATION Spec
CONSTANTS
  Family = "merge"
  IdsU = {"a", "b"}
  Ghost = "g"
  TypesU = {5}
  AttrVals = {"", "x", "y"}
  CandTriples <- ct_quick
  CandRoots = {"a", "g"}
  Dangling = TRUE
  ThirdNode = FALSE
  KindsU = {0, 1}
  Triple = FALSE
  MaxDepth = 3
INVARIANTS MergeLaws Associative ViewAgreement
CHECK_DEADLOCK FALSE
