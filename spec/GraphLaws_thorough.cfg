SPECIFICATION Spec
CONSTANTS
  Family = "merge"
  IdsU = {"a", "b"}
  Ghost = "g"
  TypesU = {5}
  AttrVals = {"", "x", "y"}
  CandTriples <- ct_thorough
  CandRoots = {"a", "g"}
  Dangling = TRUE
  ThirdNode = FALSE
  KindsU = {0, 1}
  Triple = FALSE
  MaxDepth = 3
INVARIANTS MergeLaws Associative
CHECK_DEADLOCK FALSE
