---------------------------- MODULE GraphMachine ----------------------------
(***************************************************************************)
(* Register machine over node lists: one action per public editing or      *)
(* extraction operation of sbom.NodeList, each defined by the functional   *)
(* reference in ListOps.  TLC checks that every reachable register is      *)
(* well-formed and that results of merging / removal / extraction are      *)
(* normalised (C08), with explicit frames (C11): an action changes only    *)
(* the register it names.  In simulation mode the machine also records the *)
(* calls it made (script) and prints them as JSON for replay on the code.  *)
(***************************************************************************)
EXTENDS ListOps, Json

CONSTANTS IdsU,        \* identifiers nodes are drawn from
          Ghost,       \* an identifier that is never a node (dangling arguments)
          TypesU,      \* edge types
          AttrVals,    \* values of the one attribute slot ("" = absent)
          MaxSteps,
          Mode,        \* "universe": registers r1, r2 range over all small lists; "build": start empty, use the builders
          RemoveVariant \* "exact": removal also drops root entries; "keeproots": the pre-fix behaviour

Regs == {"r1", "r2", "r3"}

NodeVal(id, a) == IF a = "" THEN [id |-> id, type |-> 0] ELSE [id |-> id, type |-> 0, name |-> a]
NodeSets(S) == {{NodeVal(id, f[id]) : id \in S} : f \in [S -> AttrVals]}
\* all well-formed, normalised lists over IdsU (canonical record form)
W == UNION {UNION {{FromViews(N, T, R) : T \in SUBSET (S \X TypesU \X S), R \in SUBSET S} : N \in NodeSets(S)} : S \in SUBSET IdsU}

VARIABLES reg, norm, steps, script
vars == <<reg, norm, steps, script>>
view == <<reg, norm, steps>>

Init == /\ IF Mode = "universe"
           THEN \E x \in W, y \in W : reg = [r \in Regs |-> IF r = "r1" THEN x ELSE IF r = "r2" THEN y ELSE EmptyList]
           ELSE reg = [r \in Regs |-> EmptyList]
        /\ norm = [r \in Regs |-> TRUE]
        /\ steps = 0
        /\ script = <<[op |-> "Reset", regs |-> reg]>>

Set(r, v, n, call) == /\ reg' = [reg EXCEPT ![r] = v]            \* frame: every other register unchanged
                      /\ norm' = [norm EXCEPT ![r] = n]
                      /\ steps' = steps + 1
                      /\ script' = Append(script, call)

AllIds == IdsU \cup {Ghost}
RemoveOp(x, D) == IF RemoveVariant = "exact" THEN RemoveF(x, D) ELSE RemoveKeepRootsF(x, D)

Union(a, b, o)     == Set(o, UnionF(reg[a], reg[b]), TRUE, [op |-> "Union", a |-> a, b |-> b, out |-> o])
IntersectA(a, b, o) == \/ Set(o, IntersectLo(reg[a], reg[b]), TRUE, [op |-> "Intersect", a |-> a, b |-> b, out |-> o])
                       \/ Set(o, IntersectHi(reg[a], reg[b]), TRUE, [op |-> "Intersect", a |-> a, b |-> b, out |-> o])
Add(a, b)          == a # b /\ Set(a, AddF(reg[a], reg[b]), TRUE, [op |-> "Add", a |-> a, b |-> b])
Remove(a, D)       == Set(a, RemoveOp(reg[a], D), TRUE, [op |-> "Remove", a |-> a, ids |-> SetToSeq(D)])
RelateNode(a, n, at, t) == Set(a, RelateNodeF(reg[a], n, at, t), FALSE,
                               [op |-> "RelateNode", a |-> a, n |-> n, at |-> at, t |-> t])
RelateList(a, b, at, t) == a # b /\ Set(a, RelateListF(reg[a], reg[b], at, t), FALSE,
                               [op |-> "RelateList", a |-> a, b |-> b, at |-> at, t |-> t])
Graph(a, s, o)     == HasNode(reg[a], s) /\ Set(o, GraphF(reg[a], s), TRUE, [op |-> "Graph", a |-> a, id |-> s, out |-> o])
Siblings(a, s, o)  == HasNode(reg[a], s) /\ Set(o, SiblingsF(reg[a], s), TRUE, [op |-> "Siblings", a |-> a, id |-> s, out |-> o])
Descendants(a, s, k, o) == HasNode(reg[a], s) /\
                      Set(o, DescendantsF(reg[a], s, k), TRUE, [op |-> "Descendants", a |-> a, id |-> s, depth |-> k, out |-> o])

\* the public builders, used the well-formedness preserving way
AddNode(a, n) == ~HasNode(reg[a], n.id) /\
                 Set(a, [reg[a] EXCEPT !.nodes = Append(@, n)], norm[a], [op |-> "AddNode", a |-> a, n |-> n])
\* adding a root node: refused silently (nothing changes) when the node has no identifier or the identifier is a root already
AddRootNode(a, n) == (~HasNode(reg[a], n.id) \/ n.id \in Roots(reg[a])) /\
                 Set(a, IF n.id = "" \/ n.id \in Roots(reg[a]) THEN reg[a]
                        ELSE [reg[a] EXCEPT !.nodes = Append(@, n), !.roots = Append(@, n.id)], norm[a],
                     [op |-> "AddRootNode", a |-> a, n |-> n])
AddEdge(a, f, t, to) == /\ {f} \cup Rng(to) \subseteq Ids(reg[a])
                        /\ Set(a, [reg[a] EXCEPT !.edges = Append(@, [type |-> t, from |-> f, to |-> to])], FALSE,
                               [op |-> "AddEdge", a |-> a, e |-> [type |-> t, from |-> f, to |-> to]])
Build == \/ \E a \in Regs, id \in IdsU, v \in AttrVals : AddNode(a, NodeVal(id, v)) \/ AddRootNode(a, NodeVal(id, v))
         \/ \E a \in Regs, v \in AttrVals : AddRootNode(a, NodeVal("", v))
         \/ \E a \in Regs, f \in IdsU, t \in TypesU, x \in IdsU : AddEdge(a, f, t, <<x>>)
         \/ \E a \in Regs, f \in IdsU, t \in TypesU, x \in IdsU, y \in IdsU : AddEdge(a, f, t, <<x, y>>)

Finish == steps = MaxSteps /\ steps' = MaxSteps + 1 /\ UNCHANGED <<reg, norm, script>>
Step == /\ steps < MaxSteps
        /\ \/ \E a, b, o \in Regs : Union(a, b, o) \/ IntersectA(a, b, o)
           \/ \E a, b \in Regs : Add(a, b)
           \/ \E a \in Regs, D \in SUBSET AllIds : Remove(a, D)
           \/ \E a \in Regs, id \in AllIds, v \in AttrVals, at \in AllIds, t \in TypesU : RelateNode(a, NodeVal(id, v), at, t)
           \/ \E a, b \in Regs, at \in AllIds, t \in TypesU : RelateList(a, b, at, t)
           \/ \E a, o \in Regs, s \in IdsU : Graph(a, s, o) \/ Siblings(a, s, o)
           \/ \E a, o \in Regs, s \in IdsU, k \in 0..3 : Descendants(a, s, k, o)   \* depth 0: below one level, selects nothing
           \/ (Mode = "build" /\ Build)
Next == Step \/ (Mode = "build" /\ Finish)
Spec == Init /\ [][Next]_vars

(* ------------------------------ properties ----------------------------- *)
AllWellFormed == \A r \in Regs : WellFormed(reg[r])
NormalisedResults == \A r \in Regs : norm[r] => Normalised(reg[r])
\* removal removes exactly the named nodes with every edge and root entry mentioning them
RemoveExact == \A x \in {reg[r] : r \in Regs}, D \in SUBSET AllIds :
                 LET r == RemoveOp(x, D) IN
                   /\ Ids(r) = Ids(x) \ D
                   /\ Triples(r) = {t \in Triples(x) : t[1] \notin D /\ t[3] \notin D}
                   /\ Roots(r) = Roots(x) \ D

\* simulation only: print the calls of a finished behaviour for replay on the real code
PrintScript == steps = MaxSteps + 1 => PrintT(<<"SCRIPT", ToJson(script)>>)
=============================================================================
