SPECIFICATION Spec
CONSTANTS
  IdsU = {"a", "b"}
  Ghost = "zz"
  TypesU = {5}
  AttrVals = {""}
  MaxSteps = 2
  Mode = "universe"
  RemoveVariant = "exact"
VIEW view
INVARIANTS AllWellFormed NormalisedResults
CHECK_DEADLOCK FALSE
