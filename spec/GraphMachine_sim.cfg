SPECIFICATION Spec
CONSTANTS
  IdsU = {"a", "b", "c"}
  Ghost = "zz"
  TypesU = {5, 10}
  AttrVals = {"", "x", "y"}
  MaxSteps = 16
  Mode = "build"
  RemoveVariant = "exact"
INVARIANTS PrintScript
CHECK_DEADLOCK FALSE
