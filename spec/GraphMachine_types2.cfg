SPECIFICATION Spec
CONSTANTS
  IdsU = {"a", "b"}
  Ghost = "zz"
  TypesU = {5, 10}
  AttrVals = {""}
  MaxSteps = 1
  Mode = "universe"
  RemoveVariant = "exact"
VIEW view
INVARIANTS AllWellFormed NormalisedResults
CHECK_DEADLOCK FALSE
