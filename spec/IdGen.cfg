SPECIFICATION Spec
INVARIANTS SafeOnly NonEmpty Deterministic SanSafe
CHECK_DEADLOCK FALSE
