-------------------------------- MODULE IdGen --------------------------------
(***************************************************************************)
(* The public node-identifier generator (C05) over character classes.      *)
(* A seed is a sequence of characters, each of class                       *)
(*   "safe"  [a-zA-Z0-9.-]    "sep"  one of / : space                      *)
(*   "other" any other ASCII  "mb"   a multi-byte rune                     *)
(* or one of the two reserved words "auto" / "node".  Sanitising maps sep  *)
(* to "-", and other / mb to "C" followed by digits (all safe).  Reserved  *)
(* words before the first usable seed become flags.  Without a usable seed *)
(* a fresh random UUID (safe characters) is appended.                      *)
(* Invariants: the identifier is non-empty, made of safe classes only, and *)
(* a function of the seeds whenever some seed is usable.                   *)
(***************************************************************************)
EXTENDS Integers, Sequences, FiniteSets, TLC
Classes == {"safe", "sep", "other", "mb"}
CharSeqs == UNION {[1..n -> Classes] : n \in 0..2}
Seeds == CharSeqs \cup {<<"AUTO">>, <<"NODE">>}           \* reserved words as single tokens
Reserved(s) == s \in {<<"AUTO">>, <<"NODE">>}
RECURSIVE San(_)
San(s) == IF s = <<>> THEN <<>>
          ELSE (IF Head(s) \in {"safe", "sep"} THEN <<"safe">> ELSE <<"safe", "safe">>) \o San(Tail(s))   \* C + digits
\* fold over the seed tuple: <<flags, valid parts>>
RECURSIVE Fold(_, _, _)
Fold(t, flags, valid) ==
  IF t = <<>> THEN <<flags, valid>>
  ELSE LET s == Head(t) IN
       IF Reserved(s) /\ valid = <<>> THEN Fold(Tail(t), Append(flags, s), valid)
       ELSE IF Reserved(s) THEN Fold(Tail(t), flags, Append(valid, <<"safe", "safe", "safe", "safe">>))
       ELSE IF San(s) # <<>> THEN Fold(Tail(t), flags, Append(valid, San(s)))
       ELSE Fold(Tail(t), flags, valid)
Usable(t) == Fold(t, <<>>, <<>>)[2] # <<>>
\* the generated identifier as a sequence of classes; "uuid" marks the random part
Gen(t, uuid) == LET f == Fold(t, <<>>, <<>>) IN
                <<"safe">> \o (IF f[2] = <<>> THEN <<uuid>> ELSE <<"safe">>)
VARIABLES t, u1, u2
vars == <<t, u1, u2>>
Tuples == UNION {[1..n -> Seeds] : n \in 0..2}
Init == t \in Tuples /\ u1 \in {"safe"} /\ u2 \in {"safe"}
Next == UNCHANGED vars
Spec == Init /\ [][Next]_vars
SafeOnly == \A i \in DOMAIN Gen(t, u1) : Gen(t, u1)[i] = "safe"
NonEmpty == Gen(t, u1) # <<>>
\* two calls with the same seeds agree whenever a seed is usable (the UUID part is absent then)
Deterministic == Usable(t) => (\A a, b \in {"uuid-1", "uuid-2"} : Gen(t, a) = Gen(t, b))
SanSafe == \A s \in CharSeqs : \A i \in DOMAIN San(s) : San(s)[i] = "safe"
=============================================================================
