------------------------------ MODULE ListOps ------------------------------
(***************************************************************************)
(* The graph algebra of protobom's sbom.NodeList, written over the         *)
(* projected record form (DESIGN.md section 4):                            *)
(*   node list  [nodes : Seq(node), edges : Seq(edge), roots : Seq(id)]    *)
(*   node       sparse record, "id" and "type" always present              *)
(*   edge       [type : Int, from : id, to : Seq(id)]                      *)
(* A nil pointer is the record [nil |-> TRUE].                             *)
(* Order is never significant in results: contracts compare the set views  *)
(* (Ids, NodeSet, Triples, Roots).                                         *)
(***************************************************************************)
EXTENDS Integers, Sequences, FiniteSets, TLC

Rng(s) == {s[i] : i \in DOMAIN s}
IsNil(x) == "nil" \in DOMAIN x
NilVal == [nil |-> TRUE]
EmptyList == [nodes |-> <<>>, edges |-> <<>>, roots |-> <<>>]

RECURSIVE SetToSeq(_)
SetToSeq(S) == IF S = {} THEN <<>>
               ELSE LET x == CHOOSE y \in S : TRUE IN <<x>> \o SetToSeq(S \ {x})

BagOf(s) == [x \in Rng(s) |-> Cardinality({i \in DOMAIN s : s[i] = x})]
NoDup(s) == Cardinality(Rng(s)) = Len(s)

(* ------------------------------ views ---------------------------------- *)
Ids(nl)     == {nl.nodes[i].id : i \in DOMAIN nl.nodes}
NodeSet(nl) == Rng(nl.nodes)
Roots(nl)   == Rng(nl.roots)
EdgeTriples(e) == {<<e.from, e.type, e.to[j]>> : j \in DOMAIN e.to}
Triples(nl) == UNION {EdgeTriples(nl.edges[i]) : i \in DOMAIN nl.edges}
Froms(nl)   == {nl.edges[i].from : i \in DOMAIN nl.edges}
HasNode(nl, id) == id \in Ids(nl)
\* the node stored under id; with duplicate ids the code's index keeps the LAST one
NodeOf(nl, id) == nl.nodes[CHOOSE i \in DOMAIN nl.nodes :
                     nl.nodes[i].id = id /\ \A j \in DOMAIN nl.nodes : nl.nodes[j].id = id => j <= i]
FirstNodeOf(nl, id) == nl.nodes[CHOOSE i \in DOMAIN nl.nodes :
                     nl.nodes[i].id = id /\ \A j \in DOMAIN nl.nodes : nl.nodes[j].id = id => j >= i]

UniqueIds(nl) == Cardinality(Ids(nl)) = Len(nl.nodes)
Closed(nl)    == /\ \A t \in Triples(nl) : t[1] \in Ids(nl) /\ t[3] \in Ids(nl)
                 /\ Froms(nl) \subseteq Ids(nl)
                 /\ Roots(nl) \subseteq Ids(nl)
EdgeClosed(nl) == (\A t \in Triples(nl) : t[1] \in Ids(nl) /\ t[3] \in Ids(nl)) /\ Froms(nl) \subseteq Ids(nl)
WellFormed(nl) == UniqueIds(nl) /\ Closed(nl)
Normalised(nl) == /\ \A i, j \in DOMAIN nl.edges :
                        i # j => <<nl.edges[i].from, nl.edges[i].type>> # <<nl.edges[j].from, nl.edges[j].type>>
                  /\ \A i \in DOMAIN nl.edges : NoDup(nl.edges[i].to)

\* which clause of well-formedness fails first ("" when none)
WFClause(nl) == IF ~UniqueIds(nl) THEN "wf.unique-ids"
                ELSE IF ~(\A t \in Triples(nl) : t[1] \in Ids(nl) /\ t[3] \in Ids(nl)) \/ ~(Froms(nl) \subseteq Ids(nl))
                     THEN "wf.edge-endpoint"
                ELSE IF ~(Roots(nl) \subseteq Ids(nl)) THEN "wf.root"
                ELSE ""

(* ---------------------- canonical construction ------------------------- *)
KeysOf(T) == {<<t[1], t[2]>> : t \in T}
EdgesFromTriples(T) ==
  LET mk(k) == [type |-> k[2], from |-> k[1], to |-> SetToSeq({t[3] : t \in {u \in T : u[1] = k[1] /\ u[2] = k[2]}})]
  IN SetToSeq({mk(k) : k \in KeysOf(T)})
FromViews(N, T, R) == [nodes |-> SetToSeq(N), edges |-> EdgesFromTriples(T), roots |-> SetToSeq(R)]
Restrict(T, I) == {t \in T : t[1] \in I /\ t[3] \in I}
\* view equality of two lists
Same(a, b) == NodeSet(a) = NodeSet(b) /\ Triples(a) = Triples(b) /\ Roots(a) = Roots(b)
\* cleanEdges: restrict to present nodes, merge by source and type, drop repeated targets
Clean(nl) == FromViews(NodeSet(nl), Restrict(Triples(nl), Ids(nl)), Roots(nl))

\* the same, also dropping root entries that name no node (what an intersection can retain at most)
CleanStrict(nl) == FromViews(NodeSet(nl), Restrict(Triples(nl), Ids(nl)), Roots(nl) \cap Ids(nl))

(* ------------------------ attribute algebra ---------------------------- *)
Frozen == {"id", "type"}
Update(a, b) == [f \in DOMAIN a \cup (DOMAIN b \ Frozen) |->
                   IF f \in DOMAIN b /\ f \notin Frozen THEN b[f] ELSE a[f]]
Augment(a, b) == [f \in DOMAIN a \cup (DOMAIN b \ Frozen) |->
                   IF f \in DOMAIN a THEN a[f] ELSE b[f]]
NoType(n) == [f \in DOMAIN n \ {"type"} |-> n[f]]
\* rn is the merge m of xn and yn, the kind taken from either
MergedIs(rn, m, xn, yn) == NoType(rn) = NoType(m) /\ rn.type \in {xn.type, yn.type}

(* --------------------------- union / add ------------------------------- *)
UnionNodes(x, y, Merge(_, _)) ==
  {IF HasNode(x, id) /\ HasNode(y, id) THEN Merge(NodeOf(x, id), NodeOf(y, id))
   ELSE IF HasNode(x, id) THEN NodeOf(x, id) ELSE NodeOf(y, id) : id \in Ids(x) \cup Ids(y)}
UnionF(x, y) == FromViews(UnionNodes(x, y, Update),
                          Restrict(Triples(x) \cup Triples(y), Ids(x) \cup Ids(y)),
                          Roots(x) \cup Roots(y))
AddF(x, y)   == FromViews(UnionNodes(x, y, Augment),
                          Restrict(Triples(x) \cup Triples(y), Ids(x) \cup Ids(y)),
                          Roots(x) \cup Roots(y))
\* contract used on observed results (kind of a shared node may come from either side)
MergeContract(r, x, y, Merge(_, _)) ==
  LET I == Ids(x) \cup Ids(y) IN
  IF Ids(r) # I \/ ~UniqueIds(r) THEN "nodes"
  ELSE IF \E id \in I : LET rn == NodeOf(r, id) IN
            ~ IF HasNode(x, id) /\ HasNode(y, id)
              THEN MergedIs(rn, Merge(NodeOf(x, id), NodeOf(y, id)), NodeOf(x, id), NodeOf(y, id))
              ELSE IF HasNode(x, id) THEN rn = NodeOf(x, id) ELSE rn = NodeOf(y, id)
       THEN "attrs"
  ELSE IF Roots(r) # Roots(x) \cup Roots(y) THEN "roots"
  ELSE IF Triples(r) # Restrict(Triples(x) \cup Triples(y), I) THEN "edges"
  ELSE ""

(* --------------------------- intersection ------------------------------ *)
InterIds(x, y) == Ids(x) \cap Ids(y)
InterNodes(x, y) == {Update(NodeOf(x, id), NodeOf(y, id)) : id \in InterIds(x, y)}
IntersectLo(x, y) == FromViews(InterNodes(x, y), Restrict(Triples(x) \cap Triples(y), InterIds(x, y)),
                               Roots(x) \cap Roots(y) \cap InterIds(x, y))
IntersectHi(x, y) == FromViews(InterNodes(x, y), Restrict(Triples(x) \cup Triples(y), InterIds(x, y)),
                               (Roots(x) \cup Roots(y)) \cap InterIds(x, y))
IntersectContract(r, x, y) ==
  LET I == InterIds(x, y) IN
  IF Ids(r) # I \/ ~UniqueIds(r) THEN "nodes"
  ELSE IF \E id \in I : ~MergedIs(NodeOf(r, id), Update(NodeOf(x, id), NodeOf(y, id)), NodeOf(x, id), NodeOf(y, id))
       THEN "attrs"
  ELSE IF ~(Roots(x) \cap Roots(y) \cap I \subseteq Roots(r) /\ Roots(r) \subseteq (Roots(x) \cup Roots(y)) \cap I)
       THEN "roots"
  ELSE IF ~(Restrict(Triples(x) \cap Triples(y), I) \subseteq Triples(r)
            /\ Triples(r) \subseteq Restrict(Triples(x) \cup Triples(y), I))
       THEN "edges"
  ELSE ""

(* ------------------------------ removal -------------------------------- *)
RemoveF(x, D) == LET I == Ids(x) \ D IN
  FromViews({n \in NodeSet(x) : n.id \notin D}, Restrict(Triples(x), I), Roots(x) \ D)
\* the behaviour of the pinned revision before the fix: removed ids stay in the root list
RemoveKeepRootsF(x, D) == LET I == Ids(x) \ D IN
  FromViews({n \in NodeSet(x) : n.id \notin D}, Restrict(Triples(x), I), Roots(x))

(* ------------------------------ relating ------------------------------- *)
RelateNodeF(x, n, at, t) ==
  IF ~HasNode(x, at) THEN x
  ELSE [nodes |-> IF HasNode(x, n.id) THEN x.nodes ELSE Append(x.nodes, n),
        edges |-> Append(x.edges, [type |-> t, from |-> at, to |-> <<n.id>>]),
        roots |-> x.roots]
RelateListF(x, y, at, t) ==
  IF ~HasNode(x, at) THEN x
  ELSE [nodes |-> x.nodes \o SetToSeq({m \in NodeSet(y) : m.id \notin Ids(x)}),
        edges |-> x.edges \o (IF y.roots = <<>> THEN <<>> ELSE <<[type |-> t, from |-> at, to |-> y.roots]>>) \o y.edges,
        roots |-> x.roots]
\* contract on observed results: receiver's nodes kept, new nodes taken from the argument,
\* all old triples kept, the relating triples and the argument's triples added, roots unchanged
RelateNodeContract(r, x, n, at, t) ==
  LET s == RelateNodeF(x, n, at, t) IN
  IF BagOf(r.nodes) # BagOf(s.nodes) THEN "nodes"
  ELSE IF Triples(r) # Triples(s) THEN "edges"
  ELSE IF Roots(r) # Roots(s) THEN "roots" ELSE ""
RelateListContract(r, x, y, at, t) ==
  LET s == RelateListF(x, y, at, t) IN
  IF NodeSet(r) # NodeSet(s) \/ Len(r.nodes) # Len(s.nodes) THEN "nodes"
  ELSE IF Triples(r) # Triples(s) THEN "edges"
  ELSE IF Roots(r) # Roots(s) THEN "roots" ELSE ""

(* ----------------------------- extraction ------------------------------ *)
Succ(g, n) == {t[3] : t \in {u \in Triples(g) : u[1] = n}} \cap Ids(g)
Expandable(g, s, n) == n = s \/ n \notin Roots(g)
RECURSIVE ReachR(_, _, _, _, _)
ReachR(g, s, front, seen, k) ==
  IF k = 0 \/ front = {} THEN seen
  ELSE LET seen2 == seen \cup front
           nxt == UNION {Succ(g, n) : n \in {m \in front : Expandable(g, s, m)}} \ seen2
       IN ReachR(g, s, nxt, seen2, k - 1)
\* nodes within k levels of s (s is level one), never traversing through another root
Reach(g, s, k) == IF HasNode(g, s) THEN ReachR(g, s, {s}, {}, k) ELSE {}
ReachAll(g, s) == Reach(g, s, Len(g.nodes) + 1)
GraphIds(g, s) == ReachAll(g, s) \ (Roots(g) \ {s})
SiblingIds(g, s) == Reach(g, s, 2)
Induced(g, I) == Restrict(Triples(g), I)
\* edges the traversal followed: from an expanded node of the result to a node of the result
Followed(g, s, I) == {t \in Induced(g, I) : Expandable(g, s, t[1])}
ExtractContract(r, g, s, I, mustEdges) ==
  IF IsNil(r) THEN "nil"
  ELSE IF Ids(r) # I \/ ~UniqueIds(r) \/ ~(NodeSet(r) \subseteq NodeSet(g)) THEN "nodes"
  ELSE IF Roots(r) # {s} THEN "roots"
  ELSE IF ~(mustEdges \subseteq Triples(r) /\ Triples(r) \subseteq Induced(g, I)) THEN "edges"
  ELSE ""
GraphF(g, s)      == FromViews({n \in NodeSet(g) : n.id \in GraphIds(g, s)}, Induced(g, GraphIds(g, s)), {s})
SiblingsF(g, s)   == FromViews({n \in NodeSet(g) : n.id \in SiblingIds(g, s)},
                               {t \in Induced(g, SiblingIds(g, s)) : t[1] = s}, {s})
\* the start node is level one: a depth below that selects nothing (repaired in fix 584a978; before it the result named
\* the start node as root without containing it)
DescendantsF(g, s, k) == IF k < 1 THEN EmptyList
                         ELSE FromViews({n \in NodeSet(g) : n.id \in Reach(g, s, k)}, Induced(g, Reach(g, s, k)), {s})

(* ------------------------------- lookups ------------------------------- *)
Field(n, f, dflt) == IF f \in DOMAIN n THEN n[f] ELSE dflt
MapGet(n, f, k) == IF f \in DOMAIN n /\ \E i \in DOMAIN n[f] : n[f][i][1] = k
                   THEN n[f][CHOOSE i \in DOMAIN n[f] : n[f][i][1] = k][2] ELSE ""
MapHas(n, f, k) == f \in DOMAIN n /\ \E i \in DOMAIN n[f] : n[f][i][1] = k
MapKeys(n, f) == IF f \in DOMAIN n THEN {n[f][i][1] : i \in DOMAIN n[f]} ELSE {}
NodeFILE == 1
PurlOf(n) == IF n.type = NodeFILE THEN "" ELSE MapGet(n, "identifiers", 1)
ByName(g, name) == {i \in DOMAIN g.nodes : Field(g.nodes[i], "name", "") = name}
ByIdentifier(g, t, v) == {i \in DOMAIN g.nodes : MapHas(g.nodes[i], "identifiers", t) /\ MapGet(g.nodes[i], "identifiers", t) = v}
NodesAt(g, I) == {g.nodes[i] : i \in I}
RootNodeIdx(g) == {i \in DOMAIN g.nodes : g.nodes[i].id \in Roots(g)}

\* node matching (documented rule of GetMatchingNode)
HashesMatch(n, p) == LET C == MapKeys(n, "hashes") \cap MapKeys(p, "hashes") IN
                     C # {} /\ \A a \in C : MapGet(n, "hashes", a) = MapGet(p, "hashes", a)
\* candidates are found through a (algorithm, non-empty value) index of the list
HashCandidates(g, p) == {i \in DOMAIN g.nodes : \E a \in MapKeys(p, "hashes") :
                            MapHas(g.nodes[i], "hashes", a) /\ MapGet(g.nodes[i], "hashes", a) # ""
                            /\ MapGet(g.nodes[i], "hashes", a) = MapGet(p, "hashes", a)}
HashMatches(g, p) == {i \in HashCandidates(g, p) : HashesMatch(g.nodes[i], p)}
PurlMatches(g, p, S) == {i \in S : PurlOf(p) # "" /\ PurlOf(g.nodes[i]) = PurlOf(p)}
\* result: [kind |-> "none" | "node" | "ambiguous", idx |-> set of admissible indices]
Match(g, p) ==
  LET H == HashMatches(g, p) IN
  IF Cardinality(H) = 1 THEN [kind |-> "node", idx |-> H]
  ELSE IF H = {} THEN
        LET P == PurlMatches(g, p, DOMAIN g.nodes) IN
        IF P = {} THEN [kind |-> "none", idx |-> {}]
        ELSE IF Cardinality(P) = 1 THEN [kind |-> "node", idx |-> P]
        ELSE [kind |-> "ambiguous", idx |-> {}]
  ELSE LET P == PurlMatches(g, p, H) IN
        IF Cardinality(P) = 1 THEN [kind |-> "node", idx |-> P]
        ELSE [kind |-> "ambiguous", idx |-> {}]
=============================================================================
