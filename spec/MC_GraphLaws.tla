---------------------------- MODULE MC_GraphLaws ----------------------------
(* Model constants for GraphLaws that a .cfg file cannot express (tuples). *)
EXTENDS GraphLaws
ct_quick    == {<<"a", 5, "b">>, <<"b", 5, "a">>, <<"a", 5, "g">>}
ct_thorough == {<<"a", 5, "b">>, <<"b", 5, "a">>, <<"a", 5, "a">>, <<"a", 5, "g">>, <<"g", 5, "b">>}
ct_assoc    == {<<"a", 5, "b">>, <<"b", 5, "a">>, <<"a", 5, "g">>}
=============================================================================
