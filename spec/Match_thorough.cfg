SPECIFICATION Spec
CONSTANTS
  Family = "match"
  IdsU = {"a", "b"}
  Ghost = "g"
  TypesU = {5}
  AttrVals = {"", "x", "y"}
  CandTriples <- ct_quick
  CandRoots = {"a", "g"}
  Dangling = TRUE
  ThirdNode = TRUE
  KindsU = {0, 1}
  Triple = FALSE
  MaxDepth = 3
INVARIANTS MatchLaws
CHECK_DEADLOCK FALSE
