------------------------------ MODULE NodeLaws -------------------------------
(***************************************************************************)
(* Design check of the node-level contracts (C13, C14) over a complete     *)
(* small universe of nodes: the strict canonical form refines the weak     *)
(* one, content equality is an equivalence, and a reference diff DiffF     *)
(* satisfies the diff contract (detects exactly the differing attributes   *)
(* and is reconstructive) - so the contract TraceNode applies to the real  *)
(* code is satisfiable and consistent.                                     *)
(***************************************************************************)
EXTENDS NodeOps

CONSTANTS Kinds, Names, Lics, Hashes, Dates, Sups

Opt(f, S) == {<<>>} \cup {[x \in {f} |-> v] : v \in S}
Merge2(r, s) == [f \in DOMAIN r \cup DOMAIN s |-> IF f \in DOMAIN r THEN r[f] ELSE s[f]]
NodesU == {Merge2(Merge2(Merge2(Merge2(Merge2([id |-> "i", type |-> k], n), li), h), d), s) :
             k \in Kinds, n \in Opt("name", Names), li \in Opt("licenses", Lics), h \in Opt("hashes", Hashes),
             d \in Opt("release_date", Dates), s \in Opt("suppliers", Sups)}

VARIABLES a, b, stage
vars == <<a, b, stage>>
Init == a = [id |-> "i", type |-> 0] /\ b = a /\ stage = 0
Next == \/ stage = 0 /\ a' \in NodesU /\ b' = b /\ stage' = 1
        \/ stage = 1 /\ b' \in NodesU /\ a' = a /\ stage' = 2
Spec == Init /\ [][Next]_vars

(* reference diff *)
Sel(s, P(_)) == SelectSeq(s, P)
DiffField(x, y, f) ==   \* <<added, removed>> as optional one-field records
  LET k == FieldKinds["Node"][f]
      hx == f \in DOMAIN x  hy == f \in DOMAIN y
  IN IF AttrVal("Node", x, f) = AttrVal("Node", y, f) THEN <<<<>>, <<>>>>
     ELSE CASE k \in {"scalar", "time"} ->
                 IF hy /\ AttrVal("Node", y, f) # {} THEN <<[g \in {f} |-> y[f]], <<>>>> ELSE <<<<>>, [g \in {f} |-> x[f]]>>
            [] k = "list" ->
                 LET ad == IF hy THEN Sel(y[f], LAMBDA v : v \notin AttrVal("Node", x, f)) ELSE <<>>
                     rm == IF hx THEN Sel(x[f], LAMBDA v : v \notin AttrVal("Node", y, f)) ELSE <<>>
                 IN <<IF ad = <<>> THEN <<>> ELSE [g \in {f} |-> ad], IF rm = <<>> THEN <<>> ELSE [g \in {f} |-> rm]>>
            [] k = "map" ->
                 LET ad == IF hy THEN Sel(y[f], LAMBDA p : p \notin AttrVal("Node", x, f)) ELSE <<>>
                     rm == IF hx THEN Sel(x[f], LAMBDA p : p[1] \notin MapKeysOf(AttrVal("Node", y, f))) ELSE <<>>
                 IN <<IF ad = <<>> THEN <<>> ELSE [g \in {f} |-> ad], IF rm = <<>> THEN <<>> ELSE [g \in {f} |-> rm]>>
            [] OTHER ->
                 LET T == FieldTypes["Node"][f]
                     ad == IF hy THEN Sel(y[f], LAMBDA m : CanonS(T, m) \notin AttrVal("Node", x, f)) ELSE <<>>
                     rm == IF hx THEN Sel(x[f], LAMBDA m : CanonS(T, m) \notin AttrVal("Node", y, f)) ELSE <<>>
                 IN <<IF ad = <<>> THEN <<>> ELSE [g \in {f} |-> ad], IF rm = <<>> THEN <<>> ELSE [g \in {f} |-> rm]>>
Fields == {"name", "licenses", "hashes", "release_date", "suppliers"}
RECURSIVE Fold(_, _, _, _)
Fold(x, y, F, acc) == IF F = {} THEN acc
                      ELSE LET f == CHOOSE g \in F : TRUE  d == DiffField(x, y, f)
                           IN Fold(x, y, F \ {f}, <<Merge2(acc[1], d[1]), Merge2(acc[2], d[2])>>)
DiffF(x, y) == LET base == IF x.type # y.type THEN <<[id |-> "", type |-> y.type], [id |-> "", type |-> x.type]>>
                           ELSE <<[id |-> "", type |-> 0], [id |-> "", type |-> 0]>>
               IN Fold(x, y, Fields, base)

Laws == stage = 2 =>
  LET d == DiffF(a, b) IN
    /\ (CanonS("Node", a) = CanonS("Node", b) => CanonW("Node", a) = CanonW("Node", b))
    /\ (CanonS("Node", a) = CanonS("Node", b) => Differing(a, b) = {})
    /\ Differing(a, a) = {}
    /\ Differing(a, b) = Differing(b, a)
    /\ (Differing(a, b) = {}) = (d[1] = [id |-> "", type |-> 0] /\ d[2] = [id |-> "", type |-> 0])
    /\ \A f \in NodeAttrs : Rebuilt(a, d[1], d[2], f) = AttrVal("Node", b, f)
    /\ RebuiltType(a, d[1], d[2]) = b.type
=============================================================================
