SPECIFICATION Spec
CONSTANTS
  Kinds = {0}
  Names = {"v", "w"}
  Lics <- lics_q
  Hashes <- hash_q
  Dates <- dates_q
  Sups <- sups_q
INVARIANTS Laws
CHECK_DEADLOCK FALSE
