SPECIFICATION Spec
CONSTANTS
  Kinds = {0, 1}
  Names = {"v", "w"}
  Lics <- lics_t
  Hashes <- hash_q
  Dates <- dates_q
  Sups <- sups_t
INVARIANTS Laws
CHECK_DEADLOCK FALSE
