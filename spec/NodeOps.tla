------------------------------ MODULE NodeOps --------------------------------
(***************************************************************************)
(* Content equality and diffing of nodes, edges and node lists, defined    *)
(* generically over the generated Schema (field kinds by message type), so *)
(* a field added to the protobuf schema later is part of every contract.   *)
(*   CanonW: weakest reading of "same content" (every collection a bag,    *)
(*           dates to the second) - used for soundness: Equal => CanonW=.  *)
(*   CanonS: strictest reading that is still order-insensitive where the   *)
(*           property says so (top-level collections are bags, nested      *)
(*           contact lists keep their order) - used for completeness:      *)
(*           CanonS= => Equal.                                             *)
(***************************************************************************)
EXTENDS ListOps, Schema

RECURSIVE Canon(_, _, _, _)
Canon(T, m, strict, top) ==
  [f \in DOMAIN m |->
     LET k == FieldKinds[T][f] IN
     CASE k = "scalar"  -> m[f]
       [] k = "list"    -> BagOf(m[f])
       [] k = "map"     -> Rng(m[f])
       [] k = "time"    -> m[f].sec
       [] k = "msg"     -> Canon(FieldTypes[T][f], m[f], strict, FALSE)
       [] k = "msglist" -> LET c == [i \in DOMAIN m[f] |-> Canon(FieldTypes[T][f], m[f][i], strict, FALSE)]
                           IN IF strict /\ ~top THEN c ELSE BagOf(c)]
CanonW(T, m) == Canon(T, m, FALSE, TRUE)
CanonS(T, m) == Canon(T, m, TRUE, TRUE)

EdgeCanon(e) == [type |-> e.type, from |-> e.from, to |-> BagOf(e.to)]
\* list level: strict = same bag of nodes, same bag of edges (targets as bags), same bag of roots;
\* weak = same node set, same typed edge triples, same root set
ListCanonS(g) == [nodes |-> BagOf([i \in DOMAIN g.nodes |-> CanonS("Node", g.nodes[i])]),
                  edges |-> BagOf([i \in DOMAIN g.edges |-> EdgeCanon(g.edges[i])]),
                  roots |-> BagOf(g.roots)]
ListCanonW(g) == [nodes |-> {CanonW("Node", g.nodes[i]) : i \in DOMAIN g.nodes},
                  edges |-> Triples(g), roots |-> Roots(g)]

(* --------------------------------- diff -------------------------------- *)
\* attribute value as the diff sees it: sets for lists and maps, seconds for dates, content for nested messages
AttrVal(T, m, f) ==
  IF f \notin DOMAIN m THEN {}
  ELSE LET k == FieldKinds[T][f] IN
       CASE k = "scalar"  -> IF m[f] = "" THEN {} ELSE {m[f]}   \* the always-projected id may be empty
         [] k = "list"    -> Rng(m[f])
         [] k = "map"     -> Rng(m[f])
         [] k = "time"    -> {m[f].sec}
         [] k = "msglist" -> {CanonS(FieldTypes[T][f], m[f][i]) : i \in DOMAIN m[f]}
         [] k = "msg"     -> {CanonS(FieldTypes[T][f], m[f])}
\* the kind (enum whose zero value is a legitimate value) is compared separately
NodeAttrs == DOMAIN FieldKinds["Node"] \ {"type", "tag"}
SameAttr(a, b, f) == AttrVal("Node", a, f) = AttrVal("Node", b, f)
Differing(a, b) == {f \in NodeAttrs : ~SameAttr(a, b, f)} \cup (IF a.type # b.type THEN {"type"} ELSE {})
\* rebuild b's attribute f from a and the reported additions / removals
MapKeysOf(S) == {p[1] : p \in S}
Rebuilt(a, add, rem, f) ==
  LET k == FieldKinds["Node"][f]
      A == AttrVal("Node", a, f) P == AttrVal("Node", add, f) M == AttrVal("Node", rem, f)
  IN CASE k \in {"scalar", "time"} -> IF P # {} THEN P ELSE IF M # {} THEN {} ELSE A
       [] k = "map" -> {p \in A : p[1] \notin MapKeysOf(M) \cup MapKeysOf(P)} \cup P
       [] OTHER -> (A \ M) \cup P
RebuiltType(a, add, rem) == IF add.type # rem.type THEN add.type ELSE a.type
=============================================================================
