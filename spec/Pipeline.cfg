SPECIFICATION Spec
CONSTANTS
  MaxSteps = 7
  Formats = {"spdx23", "cdx15", "rec"}
  Fakes = {"fake1"}
VIEW view
INVARIANTS TypeOK Total ExplicitWins WritePrecedence
PROPERTIES Local
CHECK_DEADLOCK FALSE
