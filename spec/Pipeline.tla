------------------------------ MODULE Pipeline ------------------------------
(***************************************************************************)
(* The dispatch pipeline of pkg/reader and pkg/writer, one action per      *)
(* public entry point, at the grain of the code's own stages:              *)
(*                                                                         *)
(*   parse : options -> format (stated in the call, else detected)         *)
(*                   -> driver lookup in the reader registry -> driver     *)
(*   write : document -> format (stated in the call, else the instance's)  *)
(*                   -> driver lookup in the writer registry               *)
(*                   -> serialize -> render                                *)
(*                                                                         *)
(* State: the two package-level registries and the format of the writer    *)
(* instance in use.  Every call has a set of allowed results               *)
(* [kind, stage, driver]; the error stage says which step refused.  The    *)
(* built-in drivers are abstracted to "the driver of the family accepts a  *)
(* schema-valid document of its own family and rejects a schema-invalid    *)
(* one"; what a built-in driver does with a document of the other family   *)
(* or with no declaration at all is left open (either result).             *)
(*                                                                         *)
(* TLC checks, over all registry states: a format stated in the call wins  *)
(* over detection; registering / unregistering one format changes only     *)
(* calls that resolve to that format; a result is never both or neither.   *)
(* Behaviours are exported (Pipeline_sim.cfg) and replayed on the real     *)
(* reader and writer with recording / failing drivers; TracePipeline.tla   *)
(* judges the observed results against Allowed*.                           *)
(***************************************************************************)
EXTENDS Integers, Sequences, FiniteSets, TLC, Json

CONSTANTS MaxSteps,
          Formats,   \* subset of {"spdx23", "cdx14", "cdx15", "rec"}; "rec" is a private format no built-in driver serves
          Fakes      \* recording drivers, subset of {"fake1", "fake2"}

Family(f) == IF f = "spdx23" THEN "spdx" ELSE IF f \in {"cdx14", "cdx15"} THEN "cdx" ELSE "none"
Drivers == {"builtin", "failing"} \cup Fakes
Decls   == (Formats \ {"rec"}) \cup {"none"}         \* what the input's top-level declaration says
Bodies  == {"good", "bad"}                           \* schema-valid or not (declaration intact)
ParseOpts == {"nil", ""} \cup Formats                \* no options value / no format stated / format stated
Docs    == {"nil", "good"}

Ok(d)  == [kind |-> "ok", stage |-> "", driver |-> d]
Err(s) == [kind |-> "err", stage |-> s, driver |-> ""]

InitReg == [f \in Formats |-> IF f = "rec" THEN "none" ELSE "builtin"]

(* ------------------------------- reader -------------------------------- *)
Sniff(decl) == IF decl = "none" THEN "" ELSE decl
Resolved(decl, opt) == IF opt \notin {"", "nil"} THEN opt ELSE Sniff(decl)
BuiltinParse(f, decl, body) ==
  IF decl # "none" /\ Family(decl) = Family(f)
  THEN (IF body = "good" THEN {Ok("builtin-understood")} ELSE {Err("parse")})
  ELSE {Ok("builtin-understood"), Ok("builtin-empty"), Err("parse")}     \* foreign or undeclared input: not decided here
AllowedParse(rreg, decl, body, opt) ==
  IF opt = "nil" THEN {Err("options")}
  ELSE LET f == Resolved(decl, opt) IN
       IF f = "" THEN {Err("detect")}
       ELSE IF rreg[f] = "none" THEN {Err("lookup")}
       ELSE IF rreg[f] = "failing" THEN {Err("parse")}
       ELSE IF rreg[f] \in Fakes THEN {Ok(rreg[f])}
       ELSE BuiltinParse(f, decl, body)

(* ------------------------------- writer -------------------------------- *)
WriteFormat(wfmt, opt) == IF opt \notin {"", "nil"} THEN opt ELSE wfmt
AllowedWrite(wreg, wfmt, doc, opt) ==
  IF doc = "nil" THEN {Err("nil-doc")}
  ELSE IF opt = "nil" THEN {Err("options")}
  ELSE LET f == WriteFormat(wfmt, opt) IN
       IF f = "" \/ wreg[f] = "none" THEN {Err("lookup")}
       ELSE IF wreg[f] = "failing" THEN {Err("serialize")}
       ELSE IF wreg[f] \in Fakes THEN {Ok(wreg[f])}
       ELSE {Ok("builtin-" \o f)}                        \* the output declares exactly format f

(* ------------------------------- machine ------------------------------- *)
VARIABLES rreg, wreg, wfmt, script
vars == <<rreg, wreg, wfmt, script>>
view == <<rreg, wreg, wfmt>>

Init == rreg = InitReg /\ wreg = InitReg /\ wfmt = "" /\ script = <<[op |-> "Reset"]>>

RegisterR(f, d)  == rreg' = [rreg EXCEPT ![f] = d] /\ UNCHANGED <<wreg, wfmt>>
                    /\ script' = Append(script, [op |-> "RegisterR", f |-> f, d |-> d])
UnregisterR(f)   == rreg' = [rreg EXCEPT ![f] = "none"] /\ UNCHANGED <<wreg, wfmt>>
                    /\ script' = Append(script, [op |-> "UnregisterR", f |-> f])
RegisterW(f, d)  == wreg' = [wreg EXCEPT ![f] = d] /\ UNCHANGED <<rreg, wfmt>>
                    /\ script' = Append(script, [op |-> "RegisterW", f |-> f, d |-> d])
UnregisterW(f)   == wreg' = [wreg EXCEPT ![f] = "none"] /\ UNCHANGED <<rreg, wfmt>>
                    /\ script' = Append(script, [op |-> "UnregisterW", f |-> f])
NewWriter(f)     == wfmt' = f /\ UNCHANGED <<rreg, wreg>>
                    /\ script' = Append(script, [op |-> "NewWriter", f |-> f])
Parse(decl, body, opt) == UNCHANGED <<rreg, wreg, wfmt>>
                    /\ script' = Append(script, [op |-> "Parse", decl |-> decl, body |-> body, opt |-> opt])
Write(doc, opt)  == UNCHANGED <<rreg, wreg, wfmt>>
                    /\ script' = Append(script, [op |-> "Write", doc |-> doc, opt |-> opt])

Step == \/ \E f \in Formats, d \in Drivers : RegisterR(f, d) \/ RegisterW(f, d)
        \/ \E f \in Formats : UnregisterR(f) \/ UnregisterW(f)
        \/ \E f \in Formats \cup {""} : NewWriter(f)
        \/ \E decl \in Decls, body \in Bodies, opt \in ParseOpts : Parse(decl, body, opt)
        \/ \E doc \in Docs, opt \in ParseOpts : Write(doc, opt)
Finish == Len(script) = MaxSteps + 1 /\ script' = Append(script, [op |-> "End"]) /\ UNCHANGED <<rreg, wreg, wfmt>>
Next == (Len(script) <= MaxSteps /\ Step) \/ Finish
Spec == Init /\ [][Next]_vars
PrintScript == Len(script) = MaxSteps + 2 => PrintT(<<"SCRIPT", ToJson(script)>>)

(* ------------------------------ properties ----------------------------- *)
TypeOK == rreg \in [Formats -> Drivers \cup {"none"}] /\ wreg \in [Formats -> Drivers \cup {"none"}] /\ wfmt \in Formats \cup {""}

\* every call has at least one allowed result, and no result is both a document and an error
Total == /\ \A decl \in Decls, body \in Bodies, opt \in ParseOpts :
             LET A == AllowedParse(rreg, decl, body, opt) IN A # {} /\ \A r \in A : (r.kind = "ok") = (r.stage = "")
         /\ \A doc \in Docs, opt \in ParseOpts :
             LET A == AllowedWrite(wreg, wfmt, doc, opt) IN A # {} /\ \A r \in A : (r.kind = "ok") = (r.stage = "")

\* a format stated in the call wins over detection: with a driver that does not look at the input, the declaration is irrelevant
ExplicitWins == \A opt \in Formats, d1, d2 \in Decls, b1, b2 \in Bodies :
                  rreg[opt] \notin {"builtin"} => AllowedParse(rreg, d1, b1, opt) = AllowedParse(rreg, d2, b2, opt)
\* a format stated in the write call wins over the instance's format, which is used exactly when the call states none
WritePrecedence == \A opt \in Formats : AllowedWrite(wreg, wfmt, "good", opt) = AllowedWrite(wreg, opt, "good", "")

\* registering / unregistering format f changes only the calls that resolve to f, and only on its own side
Last == script[Len(script)]
Local == [][ /\ (Last'.op \in {"RegisterR", "UnregisterR"} =>
                  /\ \A decl \in Decls, body \in Bodies, opt \in ParseOpts :
                       Resolved(decl, opt) # Last'.f => AllowedParse(rreg', decl, body, opt) = AllowedParse(rreg, decl, body, opt)
                  /\ \A doc \in Docs, opt \in ParseOpts : AllowedWrite(wreg', wfmt', doc, opt) = AllowedWrite(wreg, wfmt, doc, opt))
             /\ (Last'.op \in {"RegisterW", "UnregisterW"} =>
                  /\ \A doc \in Docs, opt \in ParseOpts :
                       WriteFormat(wfmt, opt) # Last'.f => AllowedWrite(wreg', wfmt', doc, opt) = AllowedWrite(wreg, wfmt, doc, opt)
                  /\ \A decl \in Decls, body \in Bodies, opt \in ParseOpts :
                       AllowedParse(rreg', decl, body, opt) = AllowedParse(rreg, decl, body, opt))
             /\ (Last'.op \in {"Parse", "Write"} => rreg' = rreg /\ wreg' = wreg /\ wfmt' = wfmt) ]_vars
=============================================================================
