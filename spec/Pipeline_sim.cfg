SPECIFICATION Spec
CONSTANTS
  MaxSteps = 16
  Formats = {"spdx23", "cdx14", "cdx15", "rec"}
  Fakes = {"fake1", "fake2"}
INVARIANTS PrintScript
CHECK_DEADLOCK FALSE
