------------------------------- MODULE Registry -------------------------------
(***************************************************************************)
(* The unserializer registry of the reader package (C17) at the level of   *)
(* its shared-memory accesses.  Getters read the map; Register/Unregister  *)
(* write it under the write lock.  LockedGet = FALSE is the pre-fix code:  *)
(* two independent, unlocked map reads per lookup - TLC finds the data     *)
(* race and the lookup that returns neither a driver nor an error when an  *)
(* unregister falls between the reads.  LockedGet = TRUE: one read under   *)
(* the read lock - both invariants hold and every lookup is linearizable   *)
(* at its read.                                                            *)
(***************************************************************************)
EXTENDS Integers, Sequences, FiniteSets, TLC
CONSTANTS LockedGet
Getters == {"g1", "g2"}
Procs == Getters \cup {"u", "r"}
VARIABLES map, wlock, rcount, pc, seen, res
vars == <<map, wlock, rcount, pc, seen, res>>
Init == /\ map = "d0" /\ wlock = FALSE /\ rcount = 0
        /\ pc = [p \in Procs |-> "start"] /\ seen = [g \in Getters |-> ""] /\ res = [g \in Getters |-> "pending"]
Goto(p, l) == pc' = [pc EXCEPT ![p] = l]
\* lookup
GLock(g) == /\ pc[g] = "start"
            /\ IF LockedGet THEN ~wlock /\ rcount' = rcount + 1 ELSE UNCHANGED rcount
            /\ Goto(g, "read1") /\ UNCHANGED <<map, wlock, seen, res>>
GRead1(g) == /\ pc[g] = "read1" /\ seen' = [seen EXCEPT ![g] = map]
             /\ IF LockedGet
                THEN res' = [res EXCEPT ![g] = IF map = "" THEN "err" ELSE map] /\ Goto(g, "unlock")
                ELSE res' = res /\ Goto(g, "read2")
             /\ UNCHANGED <<map, wlock, rcount>>
GRead2(g) == /\ pc[g] = "read2"
             /\ res' = [res EXCEPT ![g] = IF seen[g] = "" THEN "err" ELSE IF map = "" THEN "nilnil" ELSE map]
             /\ Goto(g, "done") /\ UNCHANGED <<map, wlock, rcount, seen>>
GUnlock(g) == /\ pc[g] = "unlock" /\ rcount' = rcount - 1 /\ Goto(g, "done") /\ UNCHANGED <<map, wlock, seen, res>>
\* writers
WLock(p) == /\ pc[p] = "start" /\ ~wlock /\ rcount = 0 /\ wlock' = TRUE /\ Goto(p, "write") /\ UNCHANGED <<map, rcount, seen, res>>
WWrite(p) == /\ pc[p] = "write" /\ map' = (IF p = "u" THEN "" ELSE "d1") /\ Goto(p, "unlock") /\ UNCHANGED <<wlock, rcount, seen, res>>
WUnlock(p) == /\ pc[p] = "unlock" /\ wlock' = FALSE /\ Goto(p, "done") /\ UNCHANGED <<map, rcount, seen, res>>
Next == \/ \E g \in Getters : GLock(g) \/ GRead1(g) \/ GRead2(g) \/ GUnlock(g)
        \/ \E p \in {"u", "r"} : WLock(p) \/ WWrite(p) \/ WUnlock(p)
Spec == Init /\ [][Next]_vars
\* the shared-memory access a process performs in its next step
Acc(p) == IF p \in Getters /\ pc[p] \in {"read1", "read2"} THEN "R"
          ELSE IF p \notin Getters /\ pc[p] = "write" THEN "W" ELSE "none"
NoRace == \A p, q \in Procs : p # q => ~(Acc(p) # "none" /\ Acc(q) # "none" /\ "W" \in {Acc(p), Acc(q)})
NoNilNil == \A g \in Getters : res[g] # "nilnil"
\* a finished lookup returned a value the map held at some point of the lookup (here: one of d0, d1, err)
Sane == \A g \in Getters : res[g] \in {"pending", "d0", "d1", "err", "nilnil"}
=============================================================================
