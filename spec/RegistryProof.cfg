SPECIFICATION Spec
CONSTANTS
  Getters = {"g1", "g2", "g3"}
  Writers = {"w1", "w2"}
  Vals = {"d0", "d1", "none"}
INVARIANTS Inv NoRace Sane
CHECK_DEADLOCK TRUE
