---------------------------- MODULE RegistryProof ----------------------------
(***************************************************************************)
(* The locked driver registry (Registry.tla with LockedGet = TRUE) for an  *)
(* ARBITRARY number of looking-up and registering goroutines, with a       *)
(* machine-checked (TLAPS) inductive proof that no two goroutines ever     *)
(* access the map concurrently when one of them writes (C17, design        *)
(* level).  Registry.tla is the two-getter / two-writer instance TLC       *)
(* explores together with the unlocked pre-fix variant; this module is the *)
(* same protocol with the reader-writer lock kept as the set of holders    *)
(* instead of a counter, and with goroutines that start over when done.    *)
(* TLC checks it for small sets (RegistryProof.cfg) so that the actions    *)
(* are known to be enabled and the invariant non-vacuous.                  *)
(***************************************************************************)
CONSTANTS Getters, Writers, Vals
ASSUME Disjoint == Getters \cap Writers = {}

VARIABLES map,      \* the registry content
          readers,  \* goroutines holding the read lock
          wlocked,  \* goroutines holding the write lock
          pc, res
vars == <<map, readers, wlocked, pc, res>>
Procs == Getters \cup Writers
Labels == {"start", "read", "write", "unlock", "done"}

Init == /\ map \in Vals /\ readers = {} /\ wlocked = {}
        /\ pc = [p \in Procs |-> "start"] /\ res = [g \in Getters |-> map]

GLock(g)   == /\ pc[g] = "start" /\ wlocked = {}
              /\ readers' = readers \cup {g} /\ pc' = [pc EXCEPT ![g] = "read"] /\ UNCHANGED <<map, wlocked, res>>
GRead(g)   == /\ pc[g] = "read"
              /\ res' = [res EXCEPT ![g] = map] /\ pc' = [pc EXCEPT ![g] = "unlock"] /\ UNCHANGED <<map, readers, wlocked>>
GUnlock(g) == /\ pc[g] = "unlock"
              /\ readers' = readers \ {g} /\ pc' = [pc EXCEPT ![g] = "done"] /\ UNCHANGED <<map, wlocked, res>>
WLock(w)   == /\ pc[w] = "start" /\ wlocked = {} /\ readers = {}
              /\ wlocked' = {w} /\ pc' = [pc EXCEPT ![w] = "write"] /\ UNCHANGED <<map, readers, res>>
WWrite(w)  == /\ pc[w] = "write"
              /\ map' \in Vals /\ pc' = [pc EXCEPT ![w] = "unlock"] /\ UNCHANGED <<readers, wlocked, res>>
WUnlock(w) == /\ pc[w] = "unlock"
              /\ wlocked' = wlocked \ {w} /\ pc' = [pc EXCEPT ![w] = "done"] /\ UNCHANGED <<map, readers, res>>
Again(p)   == /\ pc[p] = "done" /\ pc' = [pc EXCEPT ![p] = "start"] /\ UNCHANGED <<map, readers, wlocked, res>>

Next == \/ \E g \in Getters : GLock(g) \/ GRead(g) \/ GUnlock(g)
        \/ \E w \in Writers : WLock(w) \/ WWrite(w) \/ WUnlock(w)
        \/ \E p \in Procs : Again(p)
Spec == Init /\ [][Next]_vars

\* the shared-memory access a goroutine performs in its next step
Reads(p)  == p \in Getters /\ pc[p] = "read"
Writes(p) == p \in Writers /\ pc[p] = "write"
NoRace == \A p, q \in Procs : p # q => ~(Writes(p) /\ (Reads(q) \/ Writes(q)))
\* a lookup returns a value the registry held (while the lookup had the lock)
Sane == \A g \in Getters : res[g] \in Vals

Inv == /\ pc \in [Procs -> Labels] /\ readers \subseteq Getters /\ wlocked \subseteq Writers
       /\ map \in Vals /\ res \in [Getters -> Vals]
       /\ \A g \in Getters : (g \in readers) <=> (pc[g] \in {"read", "unlock"})
       /\ \A g \in Getters : pc[g] # "write"
       /\ \A w \in Writers : (w \in wlocked) <=> (pc[w] \in {"write", "unlock"})
       /\ \A w \in Writers : pc[w] # "read"
       /\ wlocked # {} => readers = {}
       /\ \A w1, w2 \in wlocked : w1 = w2

THEOREM InitInv == Init => Inv
  BY Disjoint DEF Init, Inv, Procs, Labels

THEOREM NextInv == Inv /\ [Next]_vars => Inv'
  <1> SUFFICES ASSUME Inv, [Next]_vars PROVE Inv'
    OBVIOUS
  <1>1. ASSUME NEW g \in Getters, GLock(g) PROVE Inv'
    BY <1>1, Disjoint DEF Inv, GLock, Procs, Labels
  <1>2. ASSUME NEW g \in Getters, GRead(g) PROVE Inv'
    BY <1>2, Disjoint DEF Inv, GRead, Procs, Labels
  <1>3. ASSUME NEW g \in Getters, GUnlock(g) PROVE Inv'
    BY <1>3, Disjoint DEF Inv, GUnlock, Procs, Labels
  <1>4. ASSUME NEW w \in Writers, WLock(w) PROVE Inv'
    BY <1>4, Disjoint DEF Inv, WLock, Procs, Labels
  <1>5. ASSUME NEW w \in Writers, WWrite(w) PROVE Inv'
    BY <1>5, Disjoint DEF Inv, WWrite, Procs, Labels
  <1>6. ASSUME NEW w \in Writers, WUnlock(w) PROVE Inv'
    BY <1>6, Disjoint DEF Inv, WUnlock, Procs, Labels
  <1>7. ASSUME NEW p \in Procs, Again(p) PROVE Inv'
    BY <1>7, Disjoint DEF Inv, Again, Procs, Labels
  <1>8. CASE UNCHANGED vars
    BY <1>8 DEF Inv, vars
  <1> QED BY <1>1, <1>2, <1>3, <1>4, <1>5, <1>6, <1>7, <1>8 DEF Next

THEOREM InvNoRace == Inv => NoRace /\ Sane
  BY Disjoint DEF Inv, NoRace, Sane, Reads, Writes, Procs

\* hence: in every behaviour of the locked registry, with any number of goroutines, there is never a data race
=============================================================================
