SPECIFICATION Spec
CONSTANTS
  LockedGet = TRUE
INVARIANTS NoRace NoNilNil Sane
CHECK_DEADLOCK FALSE
