SPECIFICATION Spec
CONSTANTS
  LockedGet = FALSE
INVARIANTS NoRace NoNilNil Sane
CHECK_DEADLOCK FALSE
