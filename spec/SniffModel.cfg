SPECIFICATION Spec
CONSTANTS
  Rewind = TRUE
INVARIANTS NonConsuming ParseSeesAll Founded ExactDetected
CHECK_DEADLOCK FALSE
