------------------------------ MODULE SniffModel ------------------------------
(***************************************************************************)
(* Format detection (C06) as a function of the top-level declaration and   *)
(* its effect on the stream position.  Detection may read arbitrarily far  *)
(* and must leave pos = 0; the parse that follows consumes from pos.       *)
(***************************************************************************)
EXTENDS Integers, Sequences, FiniteSets, TLC
CONSTANTS Rewind     \* TRUE: detection rewinds the stream (the code's deferred Seek); FALSE: it does not
BF == {"absent", "CycloneDX", "cyclonedx-fold", "other", "nonstring"}
SV == {"absent", "1.2", "1.3", "1.4", "1.5", "1.6", "nonstring"}
SP == {"absent", "SPDX-2.1", "SPDX-2.2", "SPDX-2.3", "SPDX-2.30", "nonstring"}
Decl == [bf : BF, sv : SV, sp : SP]
Decodable(d) == d.bf # "nonstring" /\ d.sv # "nonstring" /\ d.sp # "nonstring"
Sniff(d) == IF ~Decodable(d) THEN <<"error", "">>                                  \* falls through to the line scanner: not tag-value
            ELSE IF d.bf \in {"CycloneDX", "cyclonedx-fold"}
                 THEN (IF d.sv \in {"1.3", "1.4", "1.5"} THEN <<"cdx", d.sv>> ELSE <<"error", "">>)
            ELSE IF d.sp \in {"SPDX-2.2", "SPDX-2.3"} THEN <<"spdx", d.sp>> ELSE <<"error", "">>
VARIABLES decl, len, pos, phase, seen
vars == <<decl, len, pos, phase, seen>>
Init == decl \in Decl /\ len \in 1..3 /\ pos = 0 /\ phase = "start" /\ seen = -1
DoSniff == /\ phase = "start" /\ phase' = "sniffed"
           /\ \E p \in 0..len : pos' = IF Rewind THEN 0 ELSE p          \* reads up to p bytes, then (maybe) rewinds
           /\ UNCHANGED <<decl, len, seen>>
DoParse == /\ phase = "sniffed" /\ Sniff(decl)[1] # "error" /\ phase' = "parsed"
           /\ seen' = len - pos /\ pos' = len /\ UNCHANGED <<decl, len>>
Next == DoSniff \/ DoParse
Spec == Init /\ [][Next]_vars
NonConsuming == phase = "sniffed" => pos = 0
ParseSeesAll == phase = "parsed" => seen = len
Founded == Sniff(decl)[1] # "error" =>
             \/ (Sniff(decl)[1] = "cdx" /\ decl.bf \in {"CycloneDX", "cyclonedx-fold"} /\ Sniff(decl)[2] = decl.sv)
             \/ (Sniff(decl)[1] = "spdx" /\ decl.bf \notin {"CycloneDX", "cyclonedx-fold"} /\ Sniff(decl)[2] = decl.sp)
ExactDetected == (decl.bf = "CycloneDX" /\ decl.sv \in {"1.3", "1.4", "1.5"} /\ decl.sp # "nonstring") => Sniff(decl) = <<"cdx", decl.sv>>
=============================================================================
