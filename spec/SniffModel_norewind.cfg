SPECIFICATION Spec
CONSTANTS
  Rewind = FALSE
INVARIANTS NonConsuming ParseSeesAll Founded ExactDetected
CHECK_DEADLOCK FALSE
