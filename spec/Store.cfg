SPECIFICATION Spec
CONSTANTS
  Keys = {"k1", "k2"}
  Payloads = {"p", "q"}
  MaxSteps = 5
VIEW view
INVARIANTS RoundTrip Isolation NoClobber ErrorsReported RetrieveExact
CHECK_DEADLOCK FALSE
