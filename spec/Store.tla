-------------------------------- MODULE Store --------------------------------
(***************************************************************************)
(* The file-system store (C19) as a key -> entry map behind a directory.   *)
(*   dir      "absent" | "present" | "file" | "readonly" | "noaccess"      *)
(*   entries  function from identifier strings to an entry:                *)
(*            [kind |-> "doc", id, payload] | [kind |-> "damaged"]         *)
(* StoreOutcome / RetrieveOutcome give the set of admissible results of a  *)
(* call and the successor state; the design machine below explores them    *)
(* with faults, TraceStore.tla judges the real code with the same          *)
(* operators.                                                              *)
(***************************************************************************)
EXTENDS Integers, Sequences, FiniteSets, TLC, Json

Usable(dir) == dir \in {"absent", "present"}        \* a missing directory is created
Put(entries, k, v) == [x \in DOMAIN entries \cup {k} |-> IF x = k THEN v ELSE entries[x]]
Del(entries, k) == [x \in DOMAIN entries \ {k} |-> entries[x]]

\* Store(doc, noClobber): result kind and successor state
StoreResult(dir, entries, doc, noclobber) ==
  IF doc.id = "" THEN [res |-> "err", dir |-> dir, entries |-> entries]           \* dir may also get created: see DirAfterErr
  ELSE IF ~Usable(dir) THEN [res |-> "err", dir |-> dir, entries |-> entries]
  ELSE IF noclobber /\ doc.id \in DOMAIN entries THEN [res |-> "err", dir |-> "present", entries |-> entries]
  ELSE [res |-> "ok", dir |-> "present", entries |-> Put(entries, doc.id, [kind |-> "doc", id |-> doc.id, payload |-> doc.payload])]
\* Retrieve(id)
RetrieveResult(dir, entries, id) ==
  IF id = "" \/ dir \in {"absent", "file", "noaccess"} \/ id \notin DOMAIN entries THEN [res |-> "err"]
  ELSE IF entries[id].kind # "doc" THEN [res |-> "err"]
  ELSE [res |-> "ok", id |-> entries[id].id, payload |-> entries[id].payload]

(* --------------------------- design machine ---------------------------- *)
CONSTANTS Keys, Payloads, MaxSteps
VARIABLES dir, entries, last, steps, script
vars == <<dir, entries, last, steps, script>>
view == <<dir, entries, last, steps>>
Docs == [id : Keys \cup {""}, payload : Payloads]
Init == dir = "absent" /\ entries = <<>> /\ last = [op |-> "none"] /\ steps = 0 /\ script = <<[op |-> "Reset"]>>
DoStore(doc, nc) == LET r == StoreResult(dir, entries, doc, nc) IN
  /\ dir' = r.dir /\ entries' = r.entries
  /\ last' = [op |-> "store", doc |-> doc, nc |-> nc, res |-> r.res, before |-> entries]
  /\ script' = Append(script, [op |-> "Store", id |-> doc.id, payload |-> doc.payload, nc |-> nc])
DoRetrieve(id) == /\ UNCHANGED <<dir, entries>>
  /\ last' = [op |-> "retrieve", id |-> id, out |-> RetrieveResult(dir, entries, id)]
  /\ script' = Append(script, [op |-> "Retrieve", id |-> id])
\* injected faults, one action per kind (the harness performs them on the real directory)
RemoveDir == dir' = "absent" /\ entries' = <<>> /\ script' = Append(script, [op |-> "RemoveDir"])
MakeFile  == dir' = "file" /\ entries' = <<>> /\ script' = Append(script, [op |-> "MakeFile"])
ChmodDir(m) == dir \in {"present", "readonly", "noaccess"} /\ dir' = m /\ entries' = entries
               /\ script' = Append(script, [op |-> "ChmodDir", mode |-> m])
Corrupt(k, how) == k \in DOMAIN entries /\ dir = "present" /\ dir' = dir /\ entries' = Put(entries, k, [kind |-> "damaged"])
                   /\ script' = Append(script, [op |-> "Corrupt", id |-> k, how |-> how])
Delete(k) == k \in DOMAIN entries /\ dir = "present" /\ dir' = dir /\ entries' = Del(entries, k)
             /\ script' = Append(script, [op |-> "Delete", id |-> k])
Fault == \/ RemoveDir \/ MakeFile
         \/ \E m \in {"present", "readonly", "noaccess"} : ChmodDir(m)
         \/ \E k \in Keys, how \in {"empty", "garbage", "foreign", "unreadable"} : Corrupt(k, how)
         \/ \E k \in Keys : Delete(k)
Step == /\ steps < MaxSteps /\ steps' = steps + 1
        /\ \/ \E d \in Docs, nc \in BOOLEAN : DoStore(d, nc)
           \/ \E id \in Keys \cup {""} : DoRetrieve(id)
           \/ (Fault /\ last' = [op |-> "fault"])
Finish == steps = MaxSteps /\ steps' = MaxSteps + 1 /\ UNCHANGED <<dir, entries, last, script>>
Next == Step \/ Finish
Spec == Init /\ [][Next]_vars
PrintScript == steps = MaxSteps + 1 => PrintT(<<"SCRIPT", ToJson(script)>>)

\* round trip, isolation, no-clobber, error reporting - as properties of the last call
RoundTrip == last.op = "store" /\ last.res = "ok" =>
               RetrieveResult(dir, entries, last.doc.id) = [res |-> "ok", id |-> last.doc.id, payload |-> last.doc.payload]
Isolation == last.op = "store" => \A k \in (DOMAIN entries \cup DOMAIN last.before) \ {last.doc.id} :
               k \in DOMAIN entries /\ k \in DOMAIN last.before /\ entries[k] = last.before[k]
NoClobber == last.op = "store" /\ last.nc /\ last.doc.id \in DOMAIN last.before =>
               last.res = "err" /\ entries = last.before
ErrorsReported == /\ (last.op = "retrieve" /\ (last.id \notin DOMAIN entries \/ entries[last.id].kind # "doc") => last.out.res = "err")
                  /\ (last.op = "store" /\ last.doc.id = "" => last.res = "err")
RetrieveExact == last.op = "retrieve" /\ last.out.res = "ok" => last.out.id = last.id
=============================================================================
