------------------------------ MODULE StoreCrash ------------------------------
(***************************************************************************)
(* Crash atomicity of Store (C20) at system-call granularity.              *)
(* File system = name -> content, content abstracted to [of, len] (which   *)
(* version's bytes, how many of them); a complete document has len = N.    *)
(* One write call may be torn anywhere.  Crash is enabled in every state.  *)
(* Protocol "inplace" (the pre-fix code: open with truncation, write,      *)
(* close on the final name) violates Atomic; "rename" (write a temporary   *)
(* file, then rename it over the entry) satisfies it.                      *)
(***************************************************************************)
EXTENDS Integers, Sequences, FiniteSets, TLC
CONSTANTS Protocol, N
VARIABLES files, pc, crashed, first
vars == <<files, pc, crashed, first>>
Complete(c) == c.len = N
Init == /\ first \in BOOLEAN
        /\ files = IF first THEN <<>> ELSE [n \in {"final"} |-> [of |-> "old", len |-> N]]
        /\ pc = "start" /\ crashed = FALSE
Put(n, c) == [m \in DOMAIN files \cup {n} |-> IF m = n THEN c ELSE files[m]]
Del(n) == [m \in DOMAIN files \ {n} |-> files[m]]
Target == IF Protocol = "inplace" THEN "final" ELSE "tmp"
OpenTrunc == /\ pc = "start" /\ files' = Put(Target, [of |-> "new", len |-> 0]) /\ pc' = "write"
Write == /\ pc = "write" /\ files[Target].len < N
         /\ \E k \in 1..(N - files[Target].len) : files' = Put(Target, [of |-> "new", len |-> files[Target].len + k])
         /\ pc' = "write"
Sync == /\ pc = "write" /\ files[Target].len = N /\ pc' = "close" /\ UNCHANGED files
Close == /\ pc = "close"
         /\ pc' = (IF Protocol = "inplace" THEN "done" ELSE "rename") /\ UNCHANGED files
Rename == /\ pc = "rename" /\ files' = [m \in (DOMAIN files \ {"tmp"}) \cup {"final"} |-> IF m = "final" THEN files["tmp"] ELSE files[m]]
          /\ pc' = "done"
Step == (OpenTrunc \/ Write \/ Sync \/ Close \/ Rename) /\ UNCHANGED <<crashed, first>>
Crash == /\ ~crashed /\ pc # "done" /\ crashed' = TRUE /\ UNCHANGED <<files, pc, first>>
Next == (~crashed /\ Step) \/ Crash
Spec == Init /\ [][Next]_vars
Retrieve == IF "final" \notin DOMAIN files THEN "error"
            ELSE IF Complete(files["final"]) THEN files["final"].of
            ELSE "partial"      \* truncated / empty / mixed: decoding may "succeed" with a damaged document
Atomic == crashed => Retrieve \in {"old", "new", "error"} /\ (first => Retrieve # "old")
=============================================================================
