SPECIFICATION Spec
CONSTANTS
  Protocol = "inplace"
  N = 4
INVARIANTS Atomic
CHECK_DEADLOCK FALSE
