SPECIFICATION Spec
CONSTANTS
  Protocol = "rename"
  N = 4
INVARIANTS Atomic
CHECK_DEADLOCK FALSE
