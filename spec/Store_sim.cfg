SPECIFICATION Spec
CONSTANTS
  Keys = {"k1", "k2", "k3"}
  Payloads = {"p", "q"}
  MaxSteps = 10
INVARIANTS RoundTrip Isolation NoClobber ErrorsReported RetrieveExact PrintScript
CHECK_DEADLOCK FALSE
