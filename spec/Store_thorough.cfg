SPECIFICATION Spec
CONSTANTS
  Keys = {"k1", "k2", "k3"}
  Payloads = {"p", "q"}
  MaxSteps = 7
INVARIANTS RoundTrip Isolation NoClobber ErrorsReported RetrieveExact
CHECK_DEADLOCK FALSE
