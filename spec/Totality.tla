------------------------------ MODULE Totality -------------------------------
(***************************************************************************)
(* Totality of serializers (C07) and parsers (C04).                        *)
(* The input spaces are finite products that TLC enumerates completely and *)
(* exports for execution on the real code:                                 *)
(*   Shapes  the document-shape lattice: which optional parts of a         *)
(*           Document are absent / empty / populated / ill-formed;         *)
(*   Faults  the JSON-tree fault model: one schema fault at one path of a  *)
(*           representative SPDX or CycloneDX document (pairs are formed   *)
(*           from the singles).                                            *)
(* The contract is the same for every case and is what TraceTranslate      *)
(* applies to each observed outcome: a call returns either output / a      *)
(* document with metadata and node list, or an error - never both, never   *)
(* neither, never a panic, exit or hang.                                   *)
(***************************************************************************)
EXTENDS Integers, Sequences, FiniteSets, TLC, Json, IOUtils

MetaV  == {"nil", "empty", "full"}
NlV    == {"nil", "empty", "nodes"}
RootsV == {"none", "one", "many", "dangling", "dup", "emptyid"}
NodesV == {"plain", "nilnode", "dupid", "emptyid", "badenum", "negenum", "rich", "protoids", "odd-urls", "mixed-purposes"}
EdgesV == {"none", "tree", "cycle", "cycle-tail", "island-cycle", "deps-cycle", "dup-deps", "dag", "dangling", "niledge", "dupedge", "emptyto", "selfloop", "negtype", "shared-child", "random", "ladder"}
DtV    == {"none", "typed", "nilall", "other-nilname", "other-named", "runtime", "badenum", "negenum"}
ExtraV == {"none", "nilperson", "nilextref", "niltool", "nilauthor", "nildoctype", "paren-person"}
Shapes == [meta : MetaV, nl : NlV, roots : RootsV, nodes : NodesV, edges : EdgesV, dt : DtV, extra : ExtraV]
\* shapes reachable by decoding protobuf wire bytes have no nil elements inside repeated fields
Decodable(s) == s.nodes # "nilnode" /\ s.edges # "niledge" /\ s.extra \in {"none", "paren-person"}

Outcomes == {"ok", "err", "panic", "exit", "hang", "both", "neither"}
Allowed(o) == o \in {"ok", "err"}

\* JSON fault model
FaultKinds == {"null", "string", "number", "bool", "array", "object", "empty", "absent", "duplicated", "oversized",
               \* boundary values of structured strings ("Type: name", SPDX special values)
               "cut-after-colon", "whitespace", "noassertion",
               \* the optional trailing "(group)" of an actor string standing alone, and opened but never closed
               "paren-only", "paren-unclosed",
               \* a ':'-delimited string cut in front of its k-th delimiter, ending in a dangling escape character
               "esc-cut-1", "esc-cut-2", "esc-cut-3", "esc-cut-4", "esc-cut-5", "esc-cut-6"}

CONSTANTS Export      \* "shapes" | "faults" | "none"
\* every JSON path of the representative documents, listed by the harness ("document#/path")
PathsSeq == IF Export = "faults" THEN JsonDeserialize(IOEnv.VH_PATHS) ELSE <<>>
Paths == {PathsSeq[i] : i \in DOMAIN PathsSeq}
Singles == Paths \X FaultKinds

\* enum sweep: every declared number of every enum of the schema, one below zero and one above the largest, each in
\* an otherwise serializable document (the largest declared numbers come from the live descriptors)
EnumMax == IF Export = "shapes" THEN JsonDeserialize(IOEnv.VH_ENUMS) ELSE [none |-> 0]
Sweeps == UNION {{[sweep |-> en, value |-> v] : v \in (-1)..(EnumMax[en] + 1)} : en \in DOMAIN EnumMax}
ASSUME Export = "shapes" => JsonSerialize(IOEnv.VH_EXPORT, [all |-> Shapes, sweeps |-> Sweeps])
ASSUME Export = "faults" => JsonSerialize(IOEnv.VH_EXPORT, [all |-> Singles])

\* a one-state machine so that TLC reports the size of what it enumerated
VARIABLES n
Init == n = IF Export = "shapes" THEN Cardinality(Shapes) ELSE IF Export = "faults" THEN Cardinality(Singles) ELSE 0
Next == UNCHANGED n
Spec == Init /\ [][Next]_n
NonEmpty == n >= 0 /\ \A o \in Outcomes : Allowed(o) \/ o \in {"panic", "exit", "hang", "both", "neither"}
=============================================================================
