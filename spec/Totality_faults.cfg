SPECIFICATION Spec
CONSTANTS
  Export = "faults"
INVARIANTS NonEmpty
CHECK_DEADLOCK FALSE
