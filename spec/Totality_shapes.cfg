SPECIFICATION Spec
CONSTANTS
  Export = "shapes"
INVARIANTS NonEmpty
CHECK_DEADLOCK FALSE
