-------------------------------- MODULE TrCDX --------------------------------
(***************************************************************************)
(* CycloneDX component-tree construction from stored `contains` edges      *)
(* (C02, C03).  Documents: all labelled trees with root 0 and nodes 1..N,  *)
(* their edge list in EVERY order.  Two algorithms:                        *)
(*  "onepass"  the pre-fix serializer: edges are processed in stored       *)
(*             order, a contained component is copied into its parent at   *)
(*             that moment and edges leaving an already placed node are    *)
(*             skipped - TLC refutes RoundTrip (a>b stored before b>c).    *)
(*  "twophase" containment is recorded first, the tree is built afterwards *)
(*             placing every node once - RoundTrip holds for every order.  *)
(* Parsing nests back: every nesting pair becomes a contains edge.         *)
(***************************************************************************)
EXTENDS Integers, Sequences, FiniteSets, TLC, Json
CONSTANTS N, Algo
Nodes == 0..N
RECURSIVE Up(_, _, _)
Up(p, i, k) == IF i = 0 THEN TRUE ELSE IF k = 0 THEN FALSE ELSE Up(p, p[i], k - 1)
Trees == {p \in [1..N -> Nodes] : \A i \in 1..N : p[i] # i /\ Up(p, i, N)}
EdgesOf(p) == {<<p[i], i>> : i \in 1..N}
Perms(S) == {s \in [1..Cardinality(S) -> S] : \A i, j \in DOMAIN s : i # j => s[i] # s[j]}

VARIABLES p, order, stage
vars == <<p, order, stage>>
Init == p \in Trees /\ order = <<>> /\ stage = 0
Next == stage = 0 /\ order' \in Perms(EdgesOf(p)) /\ stage' = 1 /\ UNCHANGED p
Spec == Init /\ [][Next]_vars

\* "onepass": state <<comps, added>>, comps[i] = nesting pairs inside component i so far
RECURSIVE OnePass(_, _, _)
OnePass(k, comps, added) ==
  IF k > Len(order) THEN <<comps, added>>
  ELSE LET f == order[k][1] t == order[k][2] IN
       IF f \in added THEN OnePass(k + 1, comps, added)                        \* edges of a placed node are skipped
       ELSE OnePass(k + 1, [comps EXCEPT ![f] = @ \cup {<<f, t>>} \cup comps[t]], added \cup {t})  \* copy of t as it is now
NestOnePass == LET r == OnePass(1, [i \in Nodes |-> {}], {0}) IN
               UNION {{<<0, t>>} \cup r[1][t] : t \in Nodes \ r[2]}
\* "twophase": children recorded in edge order, then every node placed once below its recorded parent
Children(f) == {order[k][2] : k \in {j \in DOMAIN order : order[j][1] = f}}
NestTwoPhase == UNION {{<<f, t>> : t \in Children(f)} : f \in Nodes}
Nest == IF Algo = "onepass" THEN NestOnePass ELSE NestTwoPhase
\* the parser turns every nesting pair into a contains edge: the tree must come back, whatever the stored order
RoundTrip == stage = 1 => Nest = EdgesOf(p)
EachOnce == stage = 1 => {e[2] : e \in Nest} = 1..N
\* export of every (tree, stored edge order) for replay on the real serializer / parser pair (TrCDX_export*.cfg)
ExportTree == stage = 1 => PrintT(<<"SCRIPT", ToJson(<<[op |-> "Tree", n |-> N, order |-> order]>>)>>)
=============================================================================
