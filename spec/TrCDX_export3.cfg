SPECIFICATION Spec
CONSTANTS
  N = 3
  Algo = "twophase"
INVARIANTS RoundTrip EachOnce ExportTree
CHECK_DEADLOCK FALSE
