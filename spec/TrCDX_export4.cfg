SPECIFICATION Spec
CONSTANTS
  N = 4
  Algo = "twophase"
INVARIANTS RoundTrip EachOnce ExportTree
CHECK_DEADLOCK FALSE
