SPECIFICATION Spec
CONSTANTS
  N = 3
  Algo = "onepass"
INVARIANTS RoundTrip EachOnce
CHECK_DEADLOCK FALSE
