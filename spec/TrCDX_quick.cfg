SPECIFICATION Spec
CONSTANTS
  N = 4
  Algo = "twophase"
INVARIANTS RoundTrip EachOnce
CHECK_DEADLOCK FALSE
