SPECIFICATION Spec
CONSTANTS
  N = 5
  Algo = "twophase"
INVARIANTS RoundTrip EachOnce
CHECK_DEADLOCK FALSE
