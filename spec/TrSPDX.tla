------------------------------- MODULE TrSPDX -------------------------------
(* Abstract SPDX 2.3 serializer / parser pair (C01, C03): every in-class document round-trips and a second pass
   is the identity.  Text domain {"", "s"}; enum values are the protobuf numbers; relationship names an injective tagging. *)
EXTENDS Integers, Sequences, FiniteSets, TLC
CONSTANTS Sweep     \* "quick" | "attrs": one node, all attribute combinations; "graph": 3 plain nodes, all graph shapes, all edge types on one edge
\* ---------- carry tables (final version: generated from the live code, checked by ASSUME) ----------
EdgeTypes == 1..44
RelName(t) == <<"REL", t>>              \* stands for ToSPDX2; injective on 1..44
RelOf(n) == n[2]                        \* stands for EdgeTypeFromSPDX2
ASSUME \A t \in EdgeTypes : RelOf(RelName(t)) = t
SpdxAlgos == 1..17 \ {13}               \* all but MD2
NativePurpose == {1, 14, 16, 5, 21, 7, 13, 26, 2, 12, 15, 22}
ExtRefNative == {4, 26, 29, 30, 44, 46, 47, 31}   \* BOWER MAVEN NPM NUGET SEC_ADVISORY SEC_FIX SEC_OTHER OTHER
IdTypes == 1..4
\* ---------- documents (view level) ----------
Str == {"", "s"}                         \* one abstract non-empty text
Person == [name : {"p"}, org : BOOLEAN]
Small == Sweep = "quick"
Node(id) == [id : {id}, kind : {"pkg", "file"}, name : Str, ver : Str, dl : Str, lic : {"", "MIT", "NOASSERTION"},
             cr : Str, hashes : SUBSET ((IF Small THEN {3} ELSE {3, 14}) \X {"h"}), idents : SUBSET ((IF Small THEN {1} ELSE {1, 4}) \X {"i"}),
             refs : SUBSET [t : {29, 60}, url : {"u"}, c : IF Small THEN {""} ELSE Str],
             purpose : {<<>>, <<16>>, <<17>>, <<16, 1>>}, rel : {"", "t"}, sup : {<<>>} \cup {<<p>> : p \in Person},
             orig : IF Small THEN {<<>>} ELSE {<<>>} \cup {<<p>> : p \in Person}]
\* what SPDX can carry of a node (the class C01 quantifies over is: Carry(n) = n up to NF)
CarryPkg(n) == [n EXCEPT !.refs = {r \in n.refs : r.t \in ExtRefNative},
                         !.purpose = IF Len(n.purpose) > 0 /\ n.purpose[1] \in NativePurpose THEN <<n.purpose[1]>> ELSE <<>>,
                         !.hashes = {h \in n.hashes : h[1] \in SpdxAlgos}]
CarryFile(n) == [id |-> n.id, kind |-> "file", name |-> n.name, ver |-> "", dl |-> "", lic |-> n.lic, cr |-> n.cr,
                 hashes |-> {h \in n.hashes : h[1] \in SpdxAlgos}, idents |-> {}, refs |-> {}, purpose |-> <<>>, rel |-> "",
                 sup |-> <<>>, orig |-> <<>>]
Carry(n) == IF n.kind = "pkg" THEN CarryPkg(n) ELSE CarryFile(n)
\* normal form: the NOASSERTION / NONE conventions
NF(n) == [n EXCEPT !.dl = IF n.kind = "pkg" /\ n.dl = "" THEN "NOASSERTION" ELSE n.dl,
                   !.lic = IF n.lic = "NOASSERTION" THEN "" ELSE n.lic,
                   !.cr = IF n.kind = "file" /\ n.cr = "" THEN "NONE" ELSE n.cr]
InClass(n) == Carry(n) = n
\* ---------- serializer ----------
SpdxId(id) == <<"SPDXRef-", id>>
PkgOf(n) == [spdxid |-> SpdxId(n.id), name |-> n.name, ver |-> n.ver,
             dl |-> IF n.dl = "" THEN "NOASSERTION" ELSE n.dl, lic |-> n.lic, cr |-> n.cr,
             sums |-> {h \in n.hashes : h[1] \in SpdxAlgos},
             ext |-> {[cat |-> "ref", t |-> (IF r.t \in ExtRefNative THEN r.t ELSE 31), loc |-> r.url, c |-> r.c] : r \in {q \in n.refs : q.url # ""}}
                     \cup {[cat |-> "id", t |-> i[1], loc |-> i[2], c |-> ""] : i \in n.idents},
             purpose |-> IF Len(n.purpose) > 0 /\ n.purpose[1] \in NativePurpose THEN n.purpose[1] ELSE 0,
             rel |-> n.rel,
             supplier |-> IF Len(n.sup) > 0 THEN <<n.sup[1].org, n.sup[1].name>> ELSE <<>>,
             originator |-> IF Len(n.orig) > 0 THEN <<n.orig[1].org, n.orig[1].name>> ELSE <<>>]
FileOf(n) == [spdxid |-> SpdxId(n.id), name |-> n.name, lic |-> n.lic,
              cr |-> IF n.cr = "" THEN "NONE" ELSE n.cr, sums |-> {h \in n.hashes : h[1] \in SpdxAlgos}]
Serialize(d) == [pkgs |-> {PkgOf(n) : n \in {m \in d.nodes : m.kind = "pkg"}},
                 files |-> {FileOf(n) : n \in {m \in d.nodes : m.kind = "file"}},
                 rels |-> {<<SpdxId(e[1]), RelName(e[2]), SpdxId(e[3])>> : e \in d.edges}
                          \cup {<<SpdxId("DOCUMENT"), "DESCRIBES", SpdxId(r)>> : r \in d.roots}]
\* ---------- parser ----------
NodeOfPkg(p) == [id |-> p.spdxid[2], kind |-> "pkg", name |-> p.name, ver |-> p.ver, dl |-> p.dl,
                 lic |-> IF p.lic = "NOASSERTION" THEN "" ELSE p.lic, cr |-> p.cr, hashes |-> p.sums,
                 idents |-> {<<x.t, x.loc>> : x \in {y \in p.ext : y.cat = "id"}},
                 refs |-> {[t |-> x.t, url |-> x.loc, c |-> x.c] : x \in {y \in p.ext : y.cat = "ref"}},
                 purpose |-> IF p.purpose = 0 THEN <<>> ELSE <<p.purpose>>, rel |-> p.rel,
                 sup |-> IF p.supplier = <<>> THEN <<>> ELSE <<[name |-> p.supplier[2], org |-> p.supplier[1]]>>,
                 orig |-> IF p.originator = <<>> THEN <<>> ELSE <<[name |-> p.originator[2], org |-> p.originator[1]]>>]
NodeOfFile(f) == [id |-> f.spdxid[2], kind |-> "file", name |-> f.name, ver |-> "", dl |-> "", lic |-> f.lic, cr |-> f.cr,
                  hashes |-> f.sums, idents |-> {}, refs |-> {}, purpose |-> <<>>, rel |-> "", sup |-> <<>>, orig |-> <<>>]
IsDescribes(r) == r[1] = SpdxId("DOCUMENT") /\ r[2] = "DESCRIBES"
Parse(w) == [nodes |-> {NodeOfPkg(p) : p \in w.pkgs} \cup {NodeOfFile(f) : f \in w.files},
             edges |-> {<<r[1][2], RelOf(r[2]), r[3][2]>> : r \in {q \in w.rels : ~IsDescribes(q)}},
             roots |-> {r[3][2] : r \in {q \in w.rels : IsDescribes(q)}}]
\* ---------- pipeline machine ----------
Plain(id, k) == [id |-> id, kind |-> k, name |-> "s", ver |-> "", dl |-> "", lic |-> "", cr |-> "", hashes |-> {}, idents |-> {},
                 refs |-> {}, purpose |-> <<>>, rel |-> "", sup |-> <<>>, orig |-> <<>>]
Docs == IF Sweep \in {"attrs", "quick"}
        THEN {[nodes |-> {n}, edges |-> {}, roots |-> R] : n \in {m \in Node("a") : InClass(m)}, R \in SUBSET {"a"}}
        ELSE {[nodes |-> {Plain("a", "pkg"), Plain("b", kb), Plain("c", "file")}, edges |-> E \cup X, roots |-> R] :
                kb \in {"pkg", "file"}, E \in SUBSET ({"a","b","c"} \X {5} \X {"a","b","c"}),
                X \in {{}} \cup {{<<"a", t, "b">>} : t \in EdgeTypes}, R \in SUBSET {"a","b","c"}}
VARIABLES orig, doc, wire, pass, prev
vars == <<orig, doc, wire, pass, prev>>
Init == orig \in Docs /\ doc = orig /\ wire = <<>> /\ pass = 0 /\ prev = <<>>
Write == wire = <<>> /\ pass < 2 /\ wire' = Serialize(doc) /\ UNCHANGED <<orig, doc, pass, prev>>
Read == wire # <<>> /\ doc' = Parse(wire) /\ prev' = doc /\ wire' = <<>> /\ pass' = pass + 1 /\ UNCHANGED orig
Next == Write \/ Read
Spec == Init /\ [][Next]_vars
NFDoc(d) == [d EXCEPT !.nodes = {NF(Carry(n)) : n \in d.nodes}]
RoundTrip == pass >= 1 => NFDoc(doc) = NFDoc(orig)
Fixpoint == pass >= 2 => doc = prev
=============================================================================
