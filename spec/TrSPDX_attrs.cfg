SPECIFICATION Spec
CONSTANTS
  Sweep = "attrs"
INVARIANTS RoundTrip Fixpoint
CHECK_DEADLOCK FALSE
