SPECIFICATION Spec
CONSTANTS
  Sweep = "graph"
INVARIANTS RoundTrip Fixpoint
CHECK_DEADLOCK FALSE
