SPECIFICATION Spec
CONSTANTS
  Sweep = "quick"
INVARIANTS RoundTrip Fixpoint
CHECK_DEADLOCK FALSE
