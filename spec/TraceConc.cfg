SPECIFICATION Spec
CHECK_DEADLOCK FALSE
POSTCONDITION Done
