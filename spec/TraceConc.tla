------------------------------ MODULE TraceConc -------------------------------
(***************************************************************************)
(* Concurrency (C17; the schedule clause of C11).                          *)
(* HIST: one concurrent history: calls with invocation / return stamps     *)
(* from one atomic clock and, for the reader registry, the stamp of the    *)
(* linearization point reported by the verif hook from INSIDE the critical *)
(* section.  The reader-registry calls are replayed in hook order on the   *)
(* sequential registry and every result must be the sequential one; the    *)
(* writer registry (lock-free map, no hook) must have SOME linearization   *)
(* consistent with real-time order.  Calls on independent values           *)
(* (detection, parsing and writing of separate documents, construction of  *)
(* readers and writers) must return what they return sequentially.         *)
(* RACE: what the race detector and the runtime reported for the run.      *)
(***************************************************************************)
EXTENDS Integers, Sequences, FiniteSets, TLC, Json, IOUtils
Trace == ndJsonDeserialize(IOEnv.VH_TRACE)
VARIABLES l
vars == <<l>>

ROps == {"RRegister", "RUnregister", "RGet", "Parse"}
WOps == {"WRegister", "WUnregister", "WGet", "WWrite"}   \* WWrite: a write served by the registered driver, as a whole
Idx(e, Ops) == {i \in DOMAIN e.calls : e.calls[i].op \in Ops}
Upd(m, k, v) == [x \in DOMAIN m |-> IF x = k THEN v ELSE m[x]]
Expected(m, key) == IF m[key] = "" THEN "err" ELSE m[key]

\* replay of the reader-registry calls in the order of their hook stamps
RECURSIVE RBad(_, _, _)
RBad(e, S, m) ==
  IF S = {} THEN {}
  ELSE LET i == CHOOSE j \in S : \A k \in S : e.calls[j].lin <= e.calls[k].lin
           c == e.calls[i] key == "r:" \o c.fmt IN
       (IF c.lin > c.inv /\ c.lin < c.ret THEN {} ELSE {"conc.reader.lin-outside-call"})
       \cup (IF c.op \in {"RGet", "Parse"} /\ c.res # Expected(m, key) THEN {"conc.reader.result"} ELSE {})
       \cup RBad(e, S \ {i}, IF c.op = "RRegister" THEN Upd(m, key, c.arg)
                            ELSE IF c.op = "RUnregister" THEN Upd(m, key, "") ELSE m)
\* existence of a linearization of the writer-registry calls
RECURSIVE WLin(_, _, _)
WLin(e, S, m) ==
  S = {} \/ \E i \in S :
    LET c == e.calls[i] key == "w:" \o c.fmt IN
      /\ \A k \in S : ~(e.calls[k].ret < c.inv)                  \* nothing still pending finished before c began
      /\ (c.op \in {"WGet", "WWrite"} => c.res = Expected(m, key))
      /\ WLin(e, S \ {i}, IF c.op = "WRegister" THEN Upd(m, key, c.arg)
                          ELSE IF c.op = "WUnregister" THEN Upd(m, key, "") ELSE m)

Judge(e) ==
  CASE e.op = "HIST" ->
         LET R == Idx(e, ROps) W == Idx(e, WOps) IN
         (IF \E i \in R : e.calls[i].lin = 0 THEN {"conc.hook-missing"} ELSE RBad(e, R, e.initial))
         \cup (IF WLin(e, W, e.initial) THEN {} ELSE {"conc.writer.not-linearizable"})
         \cup {"conc.panic" : i \in {j \in DOMAIN e.calls : e.calls[j].res = "panic"}}
         \cup {"conc.reader.nil-driver" : i \in {j \in DOMAIN e.calls : e.calls[j].res \in {"nilnil", "both"}}}
         \cup {"conc.sniff.result" : i \in {j \in DOMAIN e.calls : e.calls[j].op = "Sniff" /\ e.calls[j].res # "text/spdx+text;version=2.3"}}
         \cup {"conc.instance.config" : i \in {j \in DOMAIN e.calls : e.calls[j].op = "NewParseReal"
                                                  /\ e.calls[j].res # "cdx15/" \o ToString(e.calls[j].g) \o "/" \o ToString(e.calls[j].g)}}
    [] e.op = "RACE" ->
         (IF e.races > 0 THEN {IF e.mode = "readonly" THEN "conc.readonly.data-race" ELSE "conc.data-race"} ELSE {})
         \cup (IF e.abort # "" THEN {IF e.mode = "readonly" THEN "conc.readonly.abort" ELSE "conc.abort"} ELSE {})
    [] e.op = "STRESS" ->
         \* lookups racing with register / unregister of the same format: a lookup returns a driver or an error
         (IF e.writer_nilnil > 0 THEN {"conc.writer.nil-driver"} ELSE {})
         \cup (IF e.reader_nilnil > 0 THEN {"conc.reader.nil-driver"} ELSE {})
         \cup (IF e.panics > 0 THEN {"conc.panic"} ELSE {})
         \* a format that is registered throughout (and only re-registered) is found by every lookup
         \cup (IF e.reader_missing > 0 THEN {"conc.reader.registered-format-missing"} ELSE {})
         \cup (IF e.writer_missing > 0 THEN {"conc.writer.registered-format-missing"} ELSE {})
    [] e.op = "FRESH" ->
         \* the first use of the writer package in a process is a registration of a built-in format: it must stick
         IF e.got = e.want THEN {}
         ELSE IF e.want = "err" THEN {"conc.writer.first-removal-lost"} ELSE {"conc.writer.first-registration-lost"}
    [] e.op = "RO" -> {}
    [] OTHER -> {"unknown-op." \o e.op}

Init == l = 1
Next == /\ l <= Len(Trace)
        /\ LET e == Trace[l] v == Judge(e) IN IF v = {} THEN TRUE ELSE PrintT(<<"VERDICT", e.sid, l, v>>)
        /\ l' = l + 1
Spec == Init /\ [][Next]_vars
Done == TLCGet("stats").diameter - 1 = Len(Trace)
=============================================================================
