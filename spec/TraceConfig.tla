----------------------------- MODULE TraceConfig ------------------------------
(* Trace validation of C18: observed configurations of every live reader and  *)
(* writer instance after every call, judged against Config.tla's rule.        *)
EXTENDS Integers, Sequences, FiniteSets, TLC, Json, IOUtils

Trace == ndJsonDeserialize(IOEnv.VH_TRACE)
WDefaults == [format |-> "", indent |-> "4", noclobber |-> "false", fopt |-> "", store |-> ""]
RDefaults == [fopt |-> "", retr |-> "", format |-> ""]
Over(base, f) == [o \in DOMAIN base |-> IF o \in DOMAIN f THEN f[o] ELSE base[o]]

VARIABLES l, w, r    \* believed configurations of the live writer / reader instances
vars == <<l, w, r>>

FailVariant(e) == "variant" \in DOMAIN e /\ e.variant \in {"fail-serialize", "fail-render"}
Judge(e) ==
  CASE e.op = "NewWriter" ->
         (IF Len(e.insts) = Len(w) + 1 /\ e.insts[Len(e.insts)] = Over(WDefaults, e.opts) THEN {} ELSE {"config.new.own"})
         \cup (IF Len(e.insts) > Len(w) /\ SubSeq(e.insts, 1, Len(w)) = w THEN {} ELSE {"config.new.others"})
         \cup (IF e.rinsts = r THEN {} ELSE {"config.new.cross"})
         \cup (IF e.fresh = WDefaults /\ e.rfresh = RDefaults THEN {} ELSE {"config.defaults"})
    [] e.op = "NewReader" ->
         (IF Len(e.rinsts) = Len(r) + 1 /\ e.rinsts[Len(e.rinsts)] = Over(RDefaults, e.opts) THEN {} ELSE {"config.new.own"})
         \cup (IF Len(e.rinsts) > Len(r) /\ SubSeq(e.rinsts, 1, Len(r)) = r THEN {} ELSE {"config.new.others"})
         \cup (IF e.insts = w THEN {} ELSE {"config.new.cross"})
         \cup (IF e.fresh = WDefaults /\ e.rfresh = RDefaults THEN {} ELSE {"config.defaults"})
    [] e.op = "Write" ->
         \* e.i: instance, e.callfmt: per-call format ("" = none), e.used / e.usedindent: observed in the output
         LET cfg == w[e.i]
             fmt == IF e.callfmt # "" THEN e.callfmt ELSE cfg.format IN
           \* "spdx22" is a format of the library that no serializer is registered for: the format in force is still the one
           \* given (instance or call), so the write fails rather than being served by another format
           (IF fmt \in {"", "spdx22"} THEN (IF e.used = "error" THEN {} ELSE {"config.call.used"})
            ELSE IF e.used # fmt THEN {"config.call.used"}
            ELSE IF fmt = "spdx23" /\ e.callfmt = "" /\ "shared" \notin DOMAIN e /\ e.usedindent # cfg.indent THEN {"config.call.indent"} ELSE {})
           \cup (IF e.insts = w /\ e.rinsts = r THEN {} ELSE {"config.call.persist"})
           \cup (IF e.fresh = WDefaults /\ e.rfresh = RDefaults THEN {} ELSE {"config.defaults"})
    [] e.op = "SetStorePath" ->
         \* configuring the storage backend of instance i changes that instance only
         (IF e.insts = [k \in DOMAIN w |-> IF k = e.i THEN [w[k] EXCEPT !.store = e.path] ELSE w[k]] THEN {} ELSE {"config.store.shared-backend"})
         \cup (IF e.rinsts = r THEN {} ELSE {"config.new.cross"})
         \cup (IF e.fresh = WDefaults /\ e.rfresh = RDefaults THEN {} ELSE {"config.defaults"})
    [] e.op = "Read" ->
         \* parsing through an instance (auto-detection) works whatever was parsed before and leaves every configuration alone
         (IF e.got = "ok" THEN {} ELSE {"config.read.result"})
         \cup (IF e.insts = w /\ e.rinsts = r THEN {} ELSE {"config.call.persist"})
         \cup (IF e.fresh = WDefaults /\ e.rfresh = RDefaults THEN {} ELSE {"config.defaults"})
    [] e.op = "ParseCall" ->
         \* format options given to one parse call reach the driver for that call; none given: the instance's or none
         (IF e.callfopt # "" THEN (IF e.gotfopt = e.callfopt THEN {} ELSE {"config.call.fopt"})
          ELSE IF e.gotfopt \in {"", r[e.i].fopt} THEN {} ELSE {"config.call.fopt-invented"})
         \cup (IF e.insts = w /\ e.rinsts = r THEN {} ELSE {"config.call.persist"})
         \cup (IF e.fresh = WDefaults /\ e.rfresh = RDefaults THEN {} ELSE {"config.defaults"})
    [] e.op = "WriteCall" /\ FailVariant(e) ->
         \* the driver refuses: the call reports the error, and every instance is still what it was
         (IF e.gotfopt = "failed" THEN {} ELSE {"config.call.error-lost"})
         \cup (IF e.insts = w /\ e.rinsts = r THEN {} ELSE {"config.call.persist"})
         \cup (IF e.fresh = WDefaults /\ e.rfresh = RDefaults THEN {} ELSE {"config.defaults"})
    [] e.op = "WriteCall" /\ ~FailVariant(e) ->
         (IF e.callfopt # "" THEN (IF e.gotfopt = e.callfopt /\ e.gotrenderfopt = e.callfopt THEN {} ELSE {"config.call.fopt"})
          ELSE IF {e.gotfopt, e.gotrenderfopt} \subseteq {"", w[e.i].fopt} THEN {} ELSE {"config.call.fopt-invented"})
         \cup (IF e.callindent # "" THEN (IF e.gotindent = e.callindent THEN {} ELSE {"config.call.render"})
               ELSE IF e.gotindent \in {WDefaults.indent, w[e.i].indent} THEN {} ELSE {"config.call.render-invented"})
         \cup (IF e.insts = w /\ e.rinsts = r THEN {} ELSE {"config.call.persist"})
         \cup (IF e.fresh = WDefaults /\ e.rfresh = RDefaults THEN {} ELSE {"config.defaults"})
    [] e.op = "StoreNoClobber" ->
         \* a second Store of the same document through instance e.i succeeds iff the instance was not built with no-clobber
         (IF e.second = (IF w[e.i].noclobber = "true" THEN "err" ELSE "ok") THEN {} ELSE {"config.store.noclobber"})
         \cup (IF e.insts = w /\ e.rinsts = r THEN {} ELSE {"config.call.persist"})
    [] OTHER -> {"unknown-op." \o e.op}

Init == l = 1 /\ w = <<>> /\ r = <<>>
Next == /\ l <= Len(Trace)
        /\ LET e == Trace[l] IN
             IF e.op = "Reset" THEN w' = <<>> /\ r' = <<>>
             ELSE LET v == Judge(e) IN
                  /\ IF v = {} THEN TRUE ELSE PrintT(<<"VERDICT", e.sid, l, v>>)
                  /\ w' = e.insts /\ r' = e.rinsts
        /\ l' = l + 1
Spec == Init /\ [][Next]_vars
Done == TLCGet("stats").diameter - 1 = Len(Trace)
=============================================================================
