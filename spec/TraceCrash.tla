------------------------------ MODULE TraceCrash ------------------------------
(***************************************************************************)
(* Binding of StoreCrash to the real code (C20).                           *)
(* (i)  "Syscall" events are the file-system calls of a real Store, taken  *)
(*      from strace and classified by the harness (target = final entry /  *)
(*      other file in the store directory / directory).  They are replayed *)
(*      on the abstract file system; Atomic is evaluated after every call  *)
(*      and for EVERY torn length of every write.                          *)
(* (ii) "Crash" events are real kills of the storing process at the entry  *)
(*      of each of those calls (and torn writes completed by hand),        *)
(*      followed by a real Retrieve in a fresh process.  The result must   *)
(*      be the old document, the new document or an error, other entries   *)
(*      must be intact, and it must agree with what the abstract file      *)
(*      system predicts for that point.                                    *)
(***************************************************************************)
EXTENDS Integers, Sequences, FiniteSets, TLC, Json, IOUtils
Trace == ndJsonDeserialize(IOEnv.VH_TRACE)

VARIABLES l, files, hist, cur
vars == <<l, files, hist, cur>>

Put(fs, n, c) == [m \in DOMAIN fs \cup {n} |-> IF m = n THEN c ELSE fs[m]]
Del(fs, n) == [m \in DOMAIN fs \ {n} |-> fs[m]]
InStore(t) == t \in {"final", "tmp"}
AbsRetrieve(fs) == IF "final" \notin DOMAIN fs THEN "error"
                   ELSE LET f == fs["final"] IN
                        IF f.of = "new" /\ f.len = cur.newlen THEN "new"
                        ELSE IF f.of = "old" /\ f.len = cur.oldlen THEN "old" ELSE "partial"
AtomicOK(fs) == AbsRetrieve(fs) \in ({"new", "error"} \cup (IF cur.overwrite THEN {"old"} ELSE {}))
Grow(fs, t, k) == IF t \in DOMAIN fs
                  THEN Put(fs, t, [of |-> (IF fs[t].of = "old" THEN "mixed" ELSE fs[t].of), len |-> fs[t].len + k])
                  ELSE fs
HasFlag(e, f) == \E i \in 1..(Len(e.flags) - Len(f) + 1) : SubSeq(e.flags, i, i + Len(f) - 1) = f

Effect(fs, e) ==
  CASE e.name = "openat" /\ InStore(e.target) ->
         IF HasFlag(e, "O_TRUNC") \/ (HasFlag(e, "O_CREAT") /\ e.target \notin DOMAIN fs)
         THEN Put(fs, e.target, [of |-> "new", len |-> 0]) ELSE fs
    [] e.name \in {"write", "pwrite64", "writev"} /\ InStore(e.target) -> Grow(fs, e.target, e.len)
    [] e.name \in {"renameat", "renameat2", "rename"} /\ InStore(e.target) /\ InStore(e.target2) ->
         IF e.target \in DOMAIN fs THEN Put(Del(fs, e.target), e.target2, fs[e.target]) ELSE fs
    [] e.name \in {"unlinkat", "unlink"} /\ InStore(e.target) -> Del(fs, e.target)
    [] e.name \in {"ftruncate", "truncate"} /\ InStore(e.target) ->
         IF e.target \in DOMAIN fs THEN Put(fs, e.target, [of |-> "new", len |-> 0]) ELSE fs
    [] e.name \in {"linkat", "link"} /\ InStore(e.target) /\ InStore(e.target2) ->
         IF e.target \in DOMAIN fs THEN Put(fs, e.target2, fs[e.target]) ELSE fs
    [] OTHER -> fs

JudgeSyscall(e) ==
  LET after == Effect(files, e)
      tornBad == e.name \in {"write", "pwrite64", "writev"} /\ InStore(e.target)
                 /\ \E k \in 0..e.len : ~AtomicOK(Grow(files, e.target, k))
  IN (IF AtomicOK(after) THEN {} ELSE {"crash.model.atomic-after-" \o e.name})
     \cup (IF tornBad THEN {"crash.model.atomic-torn-write"} ELSE {})
     \cup (IF e.target = "outside" \/ e.target2 = "outside" THEN {"crash.model.outside"} ELSE {})

JudgeCrash(e) ==
  LET pred == AbsRetrieve(IF e.torn >= 0 THEN Grow(IF e.point \in DOMAIN hist THEN hist[e.point] ELSE files, cur.wtarget[e.point], e.torn)
                          ELSE IF e.point \in DOMAIN hist THEN hist[e.point] ELSE files)
      allowed == {cur.new} \cup (IF cur.overwrite THEN {cur.old} ELSE {})
  IN (IF e.id_res \in {"ok", "err"} THEN {} ELSE {"crash.retrieve.outcome-" \o e.id_res})
     \* the torn prefix must really have been put in place by the harness (infrastructure, not a verdict)
     \cup (IF e.torn >= 0 /\ "tornapplied" \in DOMAIN e /\ ~e.tornapplied THEN {"crash.model-mismatch"} ELSE {})
     \cup (IF e.id_res = "ok" /\ e.id_doc \notin allowed THEN {"crash.atomic"} ELSE {})
     \cup (IF e.hasother /\ (e.other_res # "ok" \/ e.other_doc # cur.other) THEN {"crash.other-key"} ELSE {})
     \* after any crash a complete store of another (shorter) document and its retrieval work, with nothing of the
     \* interrupted store mixed in
     \cup (IF e.after_res = "ok" /\ e.after_doc = cur.short THEN {} ELSE {"crash.recovery"})
     \cup (IF (pred = "new" /\ ~(e.id_res = "ok" /\ e.id_doc = cur.new))
              \/ (pred = "old" /\ ~(e.id_res = "ok" /\ e.id_doc = cur.old))
              \/ (pred = "error" /\ e.id_res = "ok")
           THEN {"crash.model-mismatch"} ELSE {})

Init == l = 1 /\ files = <<>> /\ hist = <<>> /\ cur = <<>>
Next == /\ l <= Len(Trace)
        /\ LET e == Trace[l] IN
             CASE e.op = "CrashReset" ->
                    /\ cur' = [overwrite |-> e.overwrite, oldlen |-> e.oldlen, newlen |-> e.newlen, old |-> e.old, new |-> e.new,
                               other |-> e.other, short |-> e.short, wtarget |-> <<>>]
                    /\ files' = IF e.overwrite THEN [n \in {"final"} |-> [of |-> "old", len |-> e.oldlen]] ELSE <<>>
                    /\ hist' = <<>>
               [] e.op = "Syscall" ->
                    LET v == JudgeSyscall(e) IN
                    /\ IF v = {} THEN TRUE ELSE PrintT(<<"VERDICT", e.sid, l, v>>)
                    /\ hist' = [n \in DOMAIN hist \cup {e.ordinal} |-> IF n = e.ordinal THEN files ELSE hist[n]]
                    /\ cur' = [cur EXCEPT !.wtarget = [n \in DOMAIN cur.wtarget \cup {e.ordinal} |->
                                                        IF n = e.ordinal THEN e.target ELSE cur.wtarget[n]]]
                    /\ files' = Effect(files, e)
               [] e.op = "Crash" ->
                    LET v == JudgeCrash(e) IN
                    /\ IF v = {} THEN TRUE ELSE PrintT(<<"VERDICT", e.sid, l, v>>)
                    /\ UNCHANGED <<files, hist, cur>>
               [] OTHER -> UNCHANGED <<files, hist, cur>>
        /\ l' = l + 1
Spec == Init /\ [][Next]_vars
Done == TLCGet("stats").diameter - 1 = Len(Trace)
=============================================================================
