----------------------------- MODULE TraceGraph -----------------------------
(***************************************************************************)
(* Trace validation of the graph algebra (C08-C12, C15, C16).              *)
(* The harness executes scripts (calls only) on the real sbom package and  *)
(* logs, per call, the arguments, the outcome, and the projected value of  *)
(* every register whose projection changed.  This module replays the log   *)
(* on the register machine and judges every call against ListOps.          *)
(* A failed clause is printed as <<"VERDICT", sid, line, {clauses}>>; the  *)
(* state is then resynchronised from the log so the rest is still judged.  *)
(***************************************************************************)
EXTENDS ListOps, Json, IOUtils

Trace == ndJsonDeserialize(IOEnv.VH_TRACE)

VARIABLES l, reg
vars == <<l, reg>>

Has(e, f) == f \in DOMAIN e
Ch(e) == IF Has(e, "ch") THEN e.ch ELSE <<>>
Post(e) == [r \in DOMAIN reg \cup DOMAIN Ch(e) |-> IF r \in DOMAIN Ch(e) THEN Ch(e)[r] ELSE reg[r]]
IsList(v) == "nodes" \in DOMAIN v
Tag(p, c) == IF c = "" THEN {} ELSE {p \o c}

\* registers an operation may write; everything else is in the frame (C11 for the
\* read-only / value-returning operations, observation only for in-place ones)
Frame(e, W) == {"frame." \o e.op \o "." \o r : r \in DOMAIN Ch(e) \ W}

\* C08: well-formed operands give a well-formed (and, where stated, normalised) result
WFc(e, ins, r, norm) ==
  IF IsNil(r) \/ \E x \in ins : ~WellFormed(x) THEN {}
  ELSE Tag(e.op \o ".", WFClause(r)) \cup (IF norm /\ ~Normalised(r) THEN {e.op \o ".normalised"} ELSE {})

\* C12: address sets of a result and of the operands it was built from are disjoint
HeapC(e, out, ins) ==
  IF ~Has(e, "heap") THEN {}
  ELSE {"heap." \o e.op \o "." \o out \o "-" \o i : i \in {j \in ins : j # out /\ j \in DOMAIN e.heap /\ out \in DOMAIN e.heap
                                                        /\ Rng(e.heap[out]) \cap Rng(e.heap[j]) # {}}}

IdTypeOf(s) == CASE s \in {"purl"} -> 1
                 [] s \in {"cpe22Type", "cpe22", "cpe2.2", "CPE22", " cpe2.2 "} -> 2
                 [] s \in {"cpe23Type", "cpe23", "cpe2.3", "Cpe23"} -> 3
                 [] s \in {"gitoid"} -> 4
                 [] OTHER -> 0

SameSets(a, b) == Ids(a) = Ids(b) /\ Roots(a) = Roots(b) /\ Triples(a) = Triples(b)

Judge(e) ==
  LET P == Post(e) IN
  IF Has(e, "res") /\ e.res.kind # "ok" THEN {"outcome." \o e.op \o "." \o e.res.kind}
  ELSE CASE e.op = "Union" ->
         LET x == reg[e.a] y == reg[e.b] r == P[e.out] IN
           Tag("union.", MergeContract(r, x, y, Update)) \cup WFc(e, {x, y}, r, TRUE)
           \cup Frame(e, {e.out}) \cup HeapC(e, e.out, {e.a, e.b})
       [] e.op = "Intersect" ->
         LET x == reg[e.a] y == reg[e.b] r == P[e.out] IN
           Tag("intersect.", IntersectContract(r, x, y)) \cup WFc(e, {x, y}, r, TRUE)
           \cup Frame(e, {e.out}) \cup HeapC(e, e.out, {e.a, e.b})
       [] e.op = "Add" ->
         LET x == reg[e.a] y == reg[e.b] r == P[e.a] IN
           Tag("add.", MergeContract(r, x, y, Augment)) \cup WFc(e, {x, y}, r, TRUE)
           \cup Frame(e, {e.a})
       [] e.op = "Remove" ->
         LET x == reg[e.a] r == P[e.a] IN
           (IF Same(r, RemoveF(x, Rng(e.ids))) /\ Len(r.nodes) = Cardinality(NodeSet(r)) THEN {}
            ELSE IF Same(r, RemoveKeepRootsF(x, Rng(e.ids))) THEN {"remove.roots-kept"} ELSE {"remove.exact"})
           \cup WFc(e, {x}, r, TRUE) \cup Frame(e, {e.a})
       [] e.op = "RelateNode" ->
         LET x == reg[e.a] r == P[e.a] IN
           (IF HasNode(x, e.at) # (e.err = "") THEN {"relatenode.error"} ELSE {})
           \cup Tag("relatenode.", RelateNodeContract(r, x, e.n, e.at, e.t))
           \cup (IF e.n.id = "" THEN {} ELSE WFc(e, {x}, r, FALSE)) \cup Frame(e, {e.a})
       [] e.op = "RelateList" ->
         LET x == reg[e.a] y == reg[e.b] r == P[e.a] IN
           (IF HasNode(x, e.at) # (e.err = "") THEN {"relatelist.error"} ELSE {})
           \cup Tag("relatelist.", RelateListContract(r, x, y, e.at, e.t))
           \cup WFc(e, {x, y}, r, FALSE) \cup Frame(e, {e.a})
       [] e.op = "Graph" ->
         LET g == reg[e.a] r == P[e.out] IN
           (IF ~HasNode(g, e.id) THEN (IF IsNil(r) \/ r.nodes = <<>> THEN {} ELSE {"graph.unknown-start"})
            ELSE Tag("graph.", ExtractContract(r, g, e.id, GraphIds(g, e.id), Followed(g, e.id, GraphIds(g, e.id)))))
           \cup WFc(e, {g}, r, TRUE) \cup Frame(e, {e.out}) \cup HeapC(e, e.out, {})
       [] e.op = "Siblings" ->
         LET g == reg[e.a] r == P[e.out] IN
           (IF ~HasNode(g, e.id) THEN (IF IsNil(r) \/ r.nodes = <<>> THEN {} ELSE {"siblings.unknown-start"})
            ELSE Tag("siblings.", ExtractContract(r, g, e.id, SiblingIds(g, e.id),
                                                 {t \in Induced(g, SiblingIds(g, e.id)) : t[1] = e.id})))
           \cup WFc(e, {g}, r, TRUE) \cup Frame(e, {e.out})
       [] e.op = "Descendants" ->
         LET g == reg[e.a] r == P[e.out] I == Reach(g, e.id, e.depth) IN
           (IF ~HasNode(g, e.id) THEN (IF IsNil(r) \/ r.nodes = <<>> THEN {} ELSE {"descendants.unknown-start"})
            \* a depth below one level is outside C15's quantifier (the start node is level one): only well-formedness (C08) is judged
            ELSE IF e.depth < 1 THEN {}
            ELSE Tag("descendants.", ExtractContract(r, g, e.id, I,
                        {t \in Followed(g, e.id, I) : t[1] \in Reach(g, e.id, e.depth - 1)})))
           \cup WFc(e, {g}, r, TRUE) \cup Frame(e, {e.out})
       [] e.op = "ByPurlType" ->
         LET g == reg[e.a] r == P[e.out] S == Rng(e.sel) IN
           (IF Ids(r) # S \/ (UniqueIds(g) /\ ~UniqueIds(r)) \/ ~(NodeSet(r) \subseteq NodeSet(g)) THEN {"bypurltype.nodes"}
            ELSE IF ~(Triples(r) \subseteq Induced(g, S)) THEN {"bypurltype.edges"}
            ELSE IF ~(Roots(r) \subseteq S) THEN {"bypurltype.roots"} ELSE {})
           \cup WFc(e, {g}, r, TRUE) \cup Frame(e, {e.out})
       [] e.op = "Copy" ->
         LET x == reg[e.a] r == P[e.out] IN
           (IF r = x THEN {} ELSE {"copy.content"})
           \cup (IF e.equal THEN {} ELSE {"copy.equal"})
           \cup Frame(e, {e.out}) \cup HeapC(e, e.out, {e.a})
       [] e.op = "Mutate" ->
           \* the harness changed register e.a through reflection at one path: nothing else may change
           Frame(e, {e.a})
       [] e.op = "GetNodeByID" ->
         LET g == reg[e.a] IN
           (IF HasNode(g, e.id) THEN (IF ~IsNil(e.val) /\ e.val \in NodeSet(g) /\ e.val.id = e.id THEN {} ELSE {"lookup.byid"})
            ELSE IF IsNil(e.val) THEN {} ELSE {"lookup.byid"})
           \cup Frame(e, {})
       [] e.op = "GetNodesByName" ->
         LET g == reg[e.a] IN
           (IF BagOf(e.val) = BagOf([i \in 1..Cardinality(ByName(g, e.name)) |->
                                      g.nodes[SetToSeq(ByName(g, e.name))[i]]]) THEN {} ELSE {"lookup.byname"})
           \cup Frame(e, {})
       [] e.op = "GetNodesByIdentifier" ->
         LET g == reg[e.a] I == ByIdentifier(g, IdTypeOf(e.t), e.v) IN
           (IF BagOf(e.val) = BagOf([i \in 1..Cardinality(I) |-> g.nodes[SetToSeq(I)[i]]]) THEN {} ELSE {"lookup.byidentifier"})
           \cup Frame(e, {})
       [] e.op = "GetRootNodes" ->
         LET g == reg[e.a] I == RootNodeIdx(g) IN
           \* with repeated node identifiers (ill-formed list) any non-empty choice among the nodes sharing a root id is accepted
           (IF UniqueIds(g)
            THEN (IF BagOf(e.val) = BagOf([i \in 1..Cardinality(I) |-> g.nodes[SetToSeq(I)[i]]]) THEN {} ELSE {"lookup.roots"})
            ELSE (IF Rng(e.val) \subseteq NodesAt(g, I) /\ {n.id : n \in Rng(e.val)} = {g.nodes[i].id : i \in I}
                  THEN {} ELSE {"lookup.roots"}))
           \cup Frame(e, {})
       [] e.op = "Match" ->
         LET g == reg[e.a] m == Match(g, e.p) IN
           (IF m.kind # e.kind THEN {"match.kind"}
            ELSE IF m.kind = "node" /\ e.val \notin NodesAt(g, m.idx) THEN {"match.node"} ELSE {})
           \cup Frame(e, {})
       [] e.op = "Equal" ->
           \* result is judged by TraceNode (C13); here only the frame (C11)
           Frame(e, {})
       [] e.op = "Pair" ->
           \* stateless: one ordered pair of the exported universe through Union, Add and Intersect
           LET wf(name, r) == IF ~WellFormed(e.x) \/ ~WellFormed(e.y) THEN {}
                              ELSE Tag(name \o ".", WFClause(r)) \cup (IF Normalised(r) THEN {} ELSE {name \o ".normalised"}) IN
           Tag("union.", MergeContract(e.u, e.x, e.y, Update)) \cup wf("Union", e.u)
           \cup Tag("add.", MergeContract(e.ad, e.x, e.y, Augment)) \cup wf("Add", e.ad)
           \cup Tag("intersect.", IntersectContract(e.ix, e.x, e.y)) \cup wf("Intersect", e.ix)
           \cup UNION {(IF HasNode(e.x, c.at) # (c.err = "") THEN {"relatelist.error"} ELSE {})
                       \cup Tag("relatelist.", RelateListContract(c.r, e.x, e.y, c.at, 5))
                       \cup (IF ~WellFormed(e.x) \/ ~WellFormed(e.y) THEN {} ELSE Tag("RelateList.", WFClause(c.r))) : c \in Rng(e.rl)}
           \cup (IF e.same /\ e.argsame THEN {} ELSE {"frame.Query.operand"})
       [] e.op = "EditAll" ->
           \* stateless: one list of the exported universe through every removal and every relating of a node
           UNION {LET D == Rng(c.ids) IN
                    (IF Same(c.r, RemoveF(e.x, D)) /\ Len(c.r.nodes) = Cardinality(NodeSet(c.r)) THEN {}
                     ELSE IF Same(c.r, RemoveKeepRootsF(e.x, D)) THEN {"remove.roots-kept"} ELSE {"remove.exact"})
                    \cup (IF ~WellFormed(e.x) THEN {}
                          ELSE Tag("Remove.", WFClause(c.r)) \cup (IF Normalised(c.r) THEN {} ELSE {"Remove.normalised"})) : c \in Rng(e.rm)}
           \cup UNION {(IF HasNode(e.x, c.at) # (c.err = "") THEN {"relatenode.error"} ELSE {})
                       \cup Tag("relatenode.", RelateNodeContract(c.r, e.x, c.n, c.at, 5))
                       \cup (IF ~WellFormed(e.x) THEN {} ELSE Tag("RelateNode.", WFClause(c.r))) : c \in Rng(e.rn)}
       [] e.op = "ExtractAll" ->
           \* stateless: one (graph, start) of the exported universe through NodeGraph, NodeSiblings, NodeDescendants(1..3)
           LET g == e.g s == e.id
               wf(name, r) == IF IsNil(r) \/ ~WellFormed(g) THEN {}
                              ELSE Tag(name \o ".", WFClause(r)) \cup (IF Normalised(r) THEN {} ELSE {name \o ".normalised"})
               empty(r) == IsNil(r) \/ r.nodes = <<>> IN
           IF ~HasNode(g, s)
           THEN (IF empty(e.graph) THEN {} ELSE {"graph.unknown-start"}) \cup (IF empty(e.sib) THEN {} ELSE {"siblings.unknown-start"})
                \cup (IF \A k \in 1..3 : empty(e.desc[k]) THEN {} ELSE {"descendants.unknown-start"})
                \cup (IF e.same THEN {} ELSE {"frame.Query.operand"})
           ELSE Tag("graph.", ExtractContract(e.graph, g, s, GraphIds(g, s), Followed(g, s, GraphIds(g, s)))) \cup wf("Graph", e.graph)
                \cup Tag("siblings.", ExtractContract(e.sib, g, s, SiblingIds(g, s), {t \in Induced(g, SiblingIds(g, s)) : t[1] = s}))
                \cup wf("Siblings", e.sib)
                \cup UNION {Tag("descendants.", ExtractContract(e.desc[k], g, s, Reach(g, s, k),
                                     {t \in Followed(g, s, Reach(g, s, k)) : t[1] \in Reach(g, s, k - 1)})) \cup wf("Descendants", e.desc[k])
                            : k \in 1..3}
                \cup (IF \A k \in 1..2 : IsNil(e.desc[k]) \/ IsNil(e.desc[k + 1]) \/ Ids(e.desc[k]) \subseteq Ids(e.desc[k + 1])
                      THEN {} ELSE {"law.descendants.monotone"})
                \cup (IF e.same THEN {} ELSE {"frame.Query.operand"})
       [] e.op = "CopyElem" ->
           \* copies of single elements: same content, equal to the source, no storage in common; nothing else changes
           UNION {(IF c.content THEN {} ELSE {"copy." \o c.kind \o ".content"})
                  \cup (IF c.equal THEN {} ELSE {"copy." \o c.kind \o ".equal"})
                  \cup (IF c.shared THEN {"copy." \o c.kind \o ".shared"} ELSE {}) : c \in Rng(e.copies)}
           \cup Frame(e, {})
       [] e.op = "Query" ->
           \* any other read-only call: only the frame is judged (registers, and for a serialization the rest of the document)
           Frame(e, {}) \cup (IF "docchanged" \in DOMAIN e /\ e.docchanged # "" THEN {"frame.Query.doc-" \o e.docchanged} ELSE {})
       [] e.op = "Skip" -> {}
       [] e.op = "AddNode" ->
           (IF P[e.a] = [reg[e.a] EXCEPT !.nodes = Append(@, e.n)] THEN {} ELSE {"builder.addnode"}) \cup Frame(e, {e.a})
       [] e.op = "AddEdge" ->
           (IF P[e.a] = [reg[e.a] EXCEPT !.edges = Append(@, e.e)] THEN {} ELSE {"builder.addedge"}) \cup Frame(e, {e.a})
       [] e.op = "AddRootNode" ->
           (IF P[e.a] = (IF e.n.id = "" \/ e.n.id \in Roots(reg[e.a]) THEN reg[e.a]
                         ELSE [reg[e.a] EXCEPT !.nodes = Append(@, e.n), !.roots = Append(@, e.n.id)])
            THEN {} ELSE {"builder.addrootnode"}) \cup Frame(e, {e.a})
       [] e.op = "LawSame" ->
           IF SameSets(reg[e.a], reg[e.b]) THEN {} ELSE {"law." \o e.law}
       [] e.op = "LawSameOrNil" ->
           IF IsNil(reg[e.a]) \/ IsNil(reg[e.b])
           THEN (IF IsNil(reg[e.a]) = IsNil(reg[e.b]) THEN {} ELSE {"law." \o e.law})
           ELSE IF SameSets(reg[e.a], reg[e.b]) /\ NodeSet(reg[e.a]) = NodeSet(reg[e.b]) THEN {} ELSE {"law." \o e.law}
       [] e.op = "LawSameClean" ->
           IF SameSets(reg[e.a], Clean(reg[e.b])) THEN {} ELSE {"law." \o e.law}
       [] e.op = "LawSameCleanStrict" ->
           IF SameSets(reg[e.a], CleanStrict(reg[e.b])) THEN {} ELSE {"law." \o e.law}
       [] e.op = "LawSameIfClosed" ->
           \* associativity is implied by the set definition of union only when no operand has an edge end that
           \* is missing in it but present in another operand; it is asserted for edge-closed operands
           IF (\A i \in DOMAIN e.c : EdgeClosed(reg[e.c[i]])) => SameSets(reg[e.a], reg[e.b]) THEN {} ELSE {"law." \o e.law}
       [] e.op = "LawSameSharedNodes" ->
           \* every node of a is, with all its attributes and its kind, the node b holds under the same identifier
           IF UniqueIds(reg[e.a]) /\ UniqueIds(reg[e.b]) /\ \A i \in Ids(reg[e.a]) \cap Ids(reg[e.b]) : NodeOf(reg[e.a], i) = NodeOf(reg[e.b], i)
           THEN {} ELSE {"law." \o e.law}
       [] e.op = "LawIds" ->
           IF Ids(reg[e.a]) = Ids(reg[e.b]) THEN {} ELSE {"law." \o e.law}
       [] e.op = "LawEmpty" ->
           IF reg[e.a].nodes = <<>> /\ Triples(reg[e.a]) = {} /\ reg[e.a].roots = <<>> THEN {} ELSE {"law." \o e.law}
       [] e.op = "LawSubset" ->
           IF Ids(reg[e.a]) \subseteq Ids(reg[e.b]) /\ Triples(reg[e.a]) \subseteq Triples(reg[e.b]) THEN {} ELSE {"law." \o e.law}
       [] OTHER -> {"unknown-op." \o e.op}

\* C08 over histories: an operation must not leave ANY live register ill-formed (or, if it was normalised, not
\* normalised) that was fine before - also one it was not given (aliasing between an extract and its source)
Collateral(e) ==
  IF ~Has(e, "ch") THEN {}
  ELSE LET W == IF Has(e, "out") THEN {e.out} ELSE IF Has(e, "a") THEN {e.a} ELSE {} IN
       UNION {(IF WellFormed(reg[r]) /\ ~WellFormed(e.ch[r]) THEN {e.op \o ".wf.collateral"} ELSE {})
              \cup (IF WellFormed(reg[r]) /\ Normalised(reg[r]) /\ WellFormed(e.ch[r]) /\ ~Normalised(e.ch[r])
                    THEN {e.op \o ".wf.collateral-normalised"} ELSE {}) :
              r \in {x \in (DOMAIN e.ch \cap DOMAIN reg) \ W : IsList(reg[x]) /\ IsList(e.ch[x])}}

Init == l = 1 /\ reg = <<>>
Next ==
  /\ l <= Len(Trace)
  /\ LET e == Trace[l] IN
       IF e.op = "Reset"
       THEN reg' = e.regs
       ELSE LET v == Judge(e) \cup Collateral(e) IN
            /\ IF v = {} THEN TRUE ELSE PrintT(<<"VERDICT", e.sid, l, v>>)
            /\ reg' = Post(e)
  /\ l' = l + 1
Spec == Init /\ [][Next]_vars
Accepted == l = Len(Trace) + 1
Done == TLCGet("stats").diameter - 1 = Len(Trace)
=============================================================================
