------------------------------ MODULE TraceNode ------------------------------
(***************************************************************************)
(* Trace validation of equality, checksums (C13) and node diff (C14).      *)
(* Each event carries the two (or three) projected operands and the        *)
(* results the real code returned; the contract is evaluated by TLC.       *)
(* "sep" is a derived fact supplied with the operands: some string in them *)
(* contains a separator character of the flattened encoding - only then    *)
(* may a soundness failure be the known separator-collision finding.       *)
(***************************************************************************)
EXTENDS NodeOps, Json, IOUtils

Trace == ndJsonDeserialize(IOEnv.VH_TRACE)
VARIABLES l
vars == <<l>>

\* named deviations (known findings): a differing string contains a separator character of the flattened encoding (.sep);
\* the two nodes differ only in their hashes and the unseparated "key:value" entries read the same text (.adjacent)
Sfx(e) == IF e.sep THEN ".sep" ELSE IF "adj" \in DOMAIN e /\ e.adj THEN ".adjacent" ELSE ""

JudgeEq(e, kind, cw(_), cs(_)) ==
     (IF e.eqaa /\ e.eqbb THEN {} ELSE {"eq." \o kind \o ".reflexive"})
  \cup (IF e.eq = e.eqba THEN {} ELSE {"eq." \o kind \o ".symmetric"})
  \cup (IF e.eq /\ cw(e.a) # cw(e.b) THEN {"eq." \o kind \o ".sound" \o Sfx(e)} ELSE {})
  \cup (IF ~e.eq /\ cs(e.a) = cs(e.b) THEN {"eq." \o kind \o ".complete"} ELSE {})

NodeW(n) == CanonW("Node", n)
NodeS(n) == CanonS("Node", n)

Judge(e) ==
  CASE e.op = "NodeEq" ->
         JudgeEq(e, "node", NodeW, NodeS)
         \cup (IF e.eq = (e.csa = e.csb) THEN {} ELSE {"eq.node.checksum"})
    [] e.op = "EdgeEq" -> JudgeEq(e, "edge", EdgeCanon, EdgeCanon)
    [] e.op = "ListEq" -> JudgeEq(e, "list", ListCanonW, ListCanonS)
    [] e.op = "NilEq" ->
         \* comparing with the absent value: false, and the call returns
         IF e.o.kind = "ok" /\ ~e.eq THEN {} ELSE {"eq." \o e.kind \o ".nil"}
    [] e.op = "NodeEq3" ->
         IF e.ab /\ e.bc /\ ~e.ac THEN {"eq.node.transitive"} ELSE {}
    [] e.op = "Diff" ->
         LET D == Differing(e.a, e.b) IN
           (IF e.isnil = (D = {}) THEN {} ELSE {"diff.detect" \o Sfx(e)})
           \cup (IF e.isnil \/ D = {} THEN {}
                 ELSE (IF e.count = Cardinality(D) THEN {} ELSE {"diff.count" \o Sfx(e)})
                      \cup (IF \A f \in NodeAttrs : Rebuilt(e.a, e.added, e.removed, f) = AttrVal("Node", e.b, f)
                            THEN {} ELSE {"diff.rebuild" \o Sfx(e)})
                      \cup (IF RebuiltType(e.a, e.added, e.removed) = e.b.type THEN {} ELSE {"diff.rebuild.type"}))
    [] OTHER -> {"unknown-op." \o e.op}

Init == l = 1
Next == /\ l <= Len(Trace)
        /\ LET e == Trace[l] v == Judge(e) IN IF v = {} THEN TRUE ELSE PrintT(<<"VERDICT", e.sid, l, v>>)
        /\ l' = l + 1
Spec == Init /\ [][Next]_vars
Done == TLCGet("stats").diameter - 1 = Len(Trace)
=============================================================================
