SPECIFICATION TSpec
CONSTANTS
  MaxSteps = 16
  Formats = {"spdx23", "cdx14", "cdx15", "rec"}
  Fakes = {"fake1", "fake2"}
CHECK_DEADLOCK FALSE
POSTCONDITION Done
