---------------------------- MODULE TracePipeline ----------------------------
(* Trace validation of the dispatch pipeline: behaviours of Pipeline.tla      *)
(* replayed on the real reader and writer (vh pipe-run); the registries are   *)
(* tracked from the logged calls and every observed result must be one the    *)
(* specification allows.                                                      *)
EXTENDS Pipeline, IOUtils

Trace == ndJsonDeserialize(IOEnv.VH_TRACE)
VARIABLE l
tvars == <<l, rreg, wreg, wfmt, script>>

Skipped(e) == "skipped" \in DOMAIN e
Judge(e) ==
  CASE e.op = "Parse" ->
         LET A == AllowedParse(rreg, e.decl, e.body, e.opt) IN
           IF e.res \in A THEN {}
           ELSE IF e.res.kind \in {"panic", "exit", "hang"} THEN {"pipe.parse." \o e.res.kind}
           ELSE IF e.res.kind \in {"both", "neither"} THEN {"pipe.parse." \o e.res.kind}
           \* which format was used is the part the per-call option decides (C18); the rest is the registry / the driver
           ELSE IF e.opt \notin {"", "nil"} /\ e.res.driver # "" /\ \E d \in Decls : e.res \in AllowedParse(rreg, d, e.body, "")
                THEN {"pipe.parse.precedence"}
           ELSE {"pipe.parse.result"}
    [] e.op = "Write" ->
         LET A == AllowedWrite(wreg, wfmt, e.doc, e.opt) IN
           IF e.res \in A THEN {}
           ELSE IF e.doc = "good" /\ e.opt = "nil" /\ e.res.kind = "panic" THEN {"pipe.write.options-nil-panics"}   \* named deviation
           ELSE IF e.res.kind \in {"panic", "exit", "hang"} THEN {"pipe.write." \o e.res.kind}
           ELSE IF e.opt \notin {"", "nil"} /\ e.res \in AllowedWrite(wreg, wfmt, e.doc, "") THEN {"pipe.write.precedence"}
           ELSE IF e.opt = "" /\ \E f \in Formats : f # wfmt /\ e.res \in AllowedWrite(wreg, f, e.doc, "") /\ e.res.kind = "ok"
                THEN {"pipe.write.precedence"}
           ELSE {"pipe.write.result"}
    [] OTHER -> {}

TInit == l = 1 /\ rreg = InitReg /\ wreg = InitReg /\ wfmt = "" /\ script = <<>>
TNext == /\ l <= Len(Trace)
         /\ LET e == Trace[l] v == Judge(e) IN
              /\ IF v = {} THEN TRUE ELSE PrintT(<<"VERDICT", e.sid, l, v>>)
              /\ rreg' = IF e.op = "Reset" THEN InitReg
                         ELSE IF e.op = "RegisterR" /\ ~Skipped(e) THEN [rreg EXCEPT ![e.f] = e.d]
                         ELSE IF e.op = "UnregisterR" THEN [rreg EXCEPT ![e.f] = "none"] ELSE rreg
              /\ wreg' = IF e.op = "Reset" THEN InitReg
                         ELSE IF e.op = "RegisterW" /\ ~Skipped(e) THEN [wreg EXCEPT ![e.f] = e.d]
                         ELSE IF e.op = "UnregisterW" THEN [wreg EXCEPT ![e.f] = "none"] ELSE wreg
              /\ wfmt' = IF e.op = "Reset" THEN "" ELSE IF e.op = "NewWriter" THEN e.f ELSE wfmt
         /\ l' = l + 1 /\ UNCHANGED script
TSpec == TInit /\ [][TNext]_tvars
Done == TLCGet("stats").diameter - 1 = Len(Trace)
=============================================================================
