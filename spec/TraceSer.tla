------------------------------- MODULE TraceSer -------------------------------
(***************************************************************************)
(* Trace validation of serializer totality and determinism (C07).          *)
(* SER / SER2: the same document of a given shape (Totality.tla) written   *)
(* in a registered format at two different history positions; "n" is the   *)
(* output normalised by masking the creation timestamp and sorting arrays. *)
(* The serializers are modelled WITHOUT any state that survives a call, so *)
(* the second observation must equal the first.                            *)
(***************************************************************************)
EXTENDS Integers, Sequences, FiniteSets, TLC, Json, IOUtils
Trace == ndJsonDeserialize(IOEnv.VH_TRACE)
VARIABLES l, seen
vars == <<l, seen>>
Allowed(o) == o.kind \in {"ok", "err"}
Key(e) == <<e.case, e.fmt>>
Judge(e) ==
  (IF Allowed(e.o) THEN {} ELSE {"ser.total." \o e.fmt \o "." \o e.o.kind})
  \cup (IF e.op = "SER2" /\ Key(e) \in DOMAIN seen /\ Allowed(e.o) /\ Allowed(seen[Key(e)].o)
           /\ (seen[Key(e)].o.kind # e.o.kind \/ seen[Key(e)].n # e.n)
        THEN {"ser.deterministic." \o e.fmt} ELSE {})
  \* the path-taking entry point writes the same bytes as the stream one, whatever the path held before
  \cup (IF "nfile" \in DOMAIN e /\ e.o.kind = "ok" /\ e.nfile # e.n THEN {"ser.deterministic.file." \o e.fmt} ELSE {})
Init == l = 1 /\ seen = <<>>
Next == /\ l <= Len(Trace)
        /\ LET e == Trace[l] v == Judge(e) IN
             /\ IF v = {} THEN TRUE ELSE PrintT(<<"VERDICT", e.sid, l, v>>)
             \* a block of documents is written in order (SER) and then in the opposite order (SER2); forget the previous block
             /\ seen' = IF e.op = "SER"
                        THEN LET base == IF l > 1 /\ Trace[l - 1].op = "SER2" THEN <<>> ELSE seen IN
                             [k \in DOMAIN base \cup {Key(e)} |-> IF k = Key(e) THEN [o |-> e.o, n |-> e.n] ELSE base[k]]
                        ELSE seen
        /\ l' = l + 1
Spec == Init /\ [][Next]_vars
Done == TLCGet("stats").diameter - 1 = Len(Trace)
=============================================================================
