SPECIFICATION Spec
CONSTANTS
  Keys = {"k1"}
  Payloads = {"p"}
  MaxSteps = 0
CHECK_DEADLOCK FALSE
POSTCONDITION Done
