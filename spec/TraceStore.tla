----------------------------- MODULE TraceStore -------------------------------
(***************************************************************************)
(* Trace validation of the file-system store (C19).  Scripts of Store /    *)
(* Retrieve calls and injected faults run in child processes (so an exit   *)
(* or panic is an observable outcome of the step in flight) as an          *)
(* unprivileged user (so permission faults are real).  Documents are       *)
(* logged as full projections; identifiers are atoms.                      *)
(***************************************************************************)
EXTENDS Integers, Sequences, FiniteSets, TLC, Json, IOUtils
Trace == ndJsonDeserialize(IOEnv.VH_TRACE)

CONSTANTS Keys, Payloads, MaxSteps
VARIABLES dir, entries, last, steps, script, l, enforce
S == INSTANCE Store
tvars == <<dir, entries, last, steps, script, l, enforce>>

Eff(d) == IF enforce THEN d ELSE IF d \in {"readonly", "noaccess"} THEN "present" ELSE d
DocOf(e) == [id |-> e.id, payload |-> e.doc]
Outcome(e) == IF e.res.kind \in {"ok", "err"} THEN {} ELSE {"store.outcome." \o e.op \o "." \o e.res.kind}
Confined(e) == IF e.outside = <<>> THEN {} ELSE {"store.confined"}

Judge(e) ==
  CASE e.op = "Store" ->
         LET r0 == S!StoreResult(Eff(dir), entries, DocOf(e), e.nc)
             \* a document with text that is not valid UTF-8 cannot be written: the store refuses it
             r == IF "badutf8" \in DOMAIN e.doc THEN [r0 EXCEPT !.res = "err"] ELSE r0 IN
           Outcome(e) \cup Confined(e)
           \cup (IF "docchanged" \in DOMAIN e THEN {"store.frame.document-changed"} ELSE {})
           \cup (IF e.res.kind \in {"ok", "err"} /\ e.res.kind # r.res
                 THEN {IF r.res = "err" /\ e.nc /\ e.id \in DOMAIN entries THEN "store.noclobber"
                       ELSE IF r.res = "err" /\ e.id = "" THEN "store.noid"
                       ELSE IF r.res = "ok" /\ dir = "absent" THEN "store.mkdir-usable"
                       ELSE "store.result"} ELSE {})
    [] e.op = "Retrieve" ->
         LET r == S!RetrieveResult(Eff(dir), entries, e.id) IN
           Outcome(e) \cup Confined(e)
           \cup (IF e.res.kind \in {"ok", "err"} /\ e.res.kind # r.res
                 THEN {IF r.res = "err" THEN "store.retrieve.error-expected" ELSE "store.retrieve.lost"} ELSE {})
           \cup (IF e.res.kind = "ok" /\ r.res = "ok" /\ e.doc # r.payload THEN {"store.retrieve.content"} ELSE {})
    [] OTHER -> {}

\* successor of the believed state: the specification's result when the call behaved, else resynchronise
NextDir(e) ==
  CASE e.op = "Store" -> IF e.direxists /\ dir = "absent" THEN "present" ELSE dir
    [] e.op = "RemoveDir" -> "absent"
    [] e.op = "MakeFile" -> "file"
    [] e.op = "ChmodDir" -> e.mode
    [] OTHER -> dir
NextEntries(e) ==
  CASE e.op = "Store" -> IF e.res.kind = "ok" THEN S!Put(entries, e.id, [kind |-> "doc", id |-> e.id, payload |-> e.doc]) ELSE entries
    [] e.op \in {"RemoveDir", "MakeFile"} -> <<>>
    [] e.op = "Corrupt" -> IF e.id \in DOMAIN entries THEN S!Put(entries, e.id, [kind |-> "damaged"]) ELSE entries
    [] e.op = "Delete" -> IF e.id \in DOMAIN entries THEN S!Del(entries, e.id) ELSE entries
    [] OTHER -> entries

Init == l = 1 /\ dir = "absent" /\ entries = <<>> /\ last = <<>> /\ steps = 0 /\ script = <<>> /\ enforce = TRUE
Next == /\ l <= Len(Trace)
        /\ LET e == Trace[l] IN
             IF e.op = "Reset"
             THEN dir' = "absent" /\ entries' = <<>> /\ enforce' = e.unprivileged
             ELSE LET v == Judge(e) IN
                  /\ IF v = {} THEN TRUE ELSE PrintT(<<"VERDICT", e.sid, l, v>>)
                  /\ dir' = NextDir(e) /\ entries' = NextEntries(e) /\ enforce' = enforce
        /\ l' = l + 1 /\ UNCHANGED <<last, steps, script>>
Spec == Init /\ [][Next]_tvars
Done == TLCGet("stats").diameter - 1 = Len(Trace)
=============================================================================
