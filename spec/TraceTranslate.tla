--------------------------- MODULE TraceTranslate ----------------------------
(***************************************************************************)
(* Trace validation of the translators.  An "RT" event is one pipeline     *)
(*   doc --write(fmt, indent)--> bytes --read--> doc1 --write--> --read--> doc2 *)
(* executed on the real writer and reader; "wire" is the writer's output   *)
(* decoded with encoding/json only, independently of protobom's readers.   *)
(*   rt.spdx.* / rt.cdx.*   round trip of the representable class (C01/C02)*)
(*   xl.*                   nothing dropped or invented in the output (C03)*)
(***************************************************************************)
EXTENDS Translate, Json, IOUtils

Trace == ndJsonDeserialize(IOEnv.VH_TRACE)
VARIABLES l
vars == <<l>>

Ok(o) == o.kind = "ok"
IdsSeq(g) == [i \in DOMAIN g.nodes |-> g.nodes[i].id]
KindPairs(g) == {<<n.id, n.type>> : n \in NodeSet(g)}
Diff(c0, c1, pfx) == {pfx \o f : f \in {x \in DOMAIN c0 : c0[x] # c1[x]}}

\* a further pass changes nothing: same nodes and kinds, edges, roots and carried attributes
SameCarried(a, b, carry(_)) == /\ UniqueIds(a) /\ UniqueIds(b) /\ KindPairs(a) = KindPairs(b)
                               /\ Triples(a) = Triples(b) /\ Roots(a) = Roots(b)
                               /\ \A i \in Ids(a) \cap Ids(b) : carry(NodeOf(a, i)) = carry(NodeOf(b, i))

(* ------------------------------ C01 ------------------------------------ *)
InClassSPDX(g) == WellFormed(g) /\ "" \notin Ids(g) /\ \A t \in Triples(g) : t[2] \in 1..44
RTspdx(e) ==
  LET g0 == NL(e.doc) IN
  IF ~InClassSPDX(g0) THEN {"harness.not-in-class"}
  ELSE IF ~Ok(e.w1) \/ ~Ok(e.r1) THEN {"rt.spdx.error"}
  ELSE LET g1 == NL(e.doc1) IN
       (IF KindPairs(g0) = KindPairs(g1) /\ UniqueIds(g1) THEN {} ELSE {"rt.spdx.nodes"})
       \cup (IF Triples(g0) = Triples(g1) THEN {} ELSE {"rt.spdx.edges"})
       \cup (IF Roots(g0) = Roots(g1) THEN {} ELSE {"rt.spdx.roots"})
       \* named deviation (known finding): the SPDX serializer strips leading and trailing white space from the copyright
       \* text; e.crtrim[i] is the stripped text of node i, computed by the harness for the nodes it applies to
       \cup UNION {LET d == Diff(CarrySPDX(NodeOf(g0, i)), CarrySPDX(NodeOf(g1, i)), "rt.spdx.attr.")
                       got == CarrySPDX(NodeOf(g1, i)).cr
                       trimmed == "crtrim" \in DOMAIN e /\ i \in DOMAIN e.crtrim
                                  /\ got = (IF e.crtrim[i] = "" /\ NodeOf(g0, i).type = 1 THEN "NONE" ELSE e.crtrim[i]) IN
                   IF "rt.spdx.attr.cr" \in d /\ trimmed THEN (d \ {"rt.spdx.attr.cr"}) \cup {"rt.spdx.attr.cr.trimmed"} ELSE d :
                     i \in {j \in Ids(g0) \cap Ids(g1) : NodeOf(g0, j).type = NodeOf(g1, j).type}}
       \cup (IF Ok(e.w2) /\ Ok(e.r2) /\ SameCarried(NL(e.doc2), g1, LAMBDA n : CarrySPDX(n)) THEN {} ELSE {"rt.spdx.fixpoint"})

(* ------------------------------ C02 ------------------------------------ *)
InClassCDX(g, v) == /\ WellFormed(g) /\ "" \notin Ids(g) /\ Len(g.roots) = 1
                    /\ Triples(g) = ContainsT(g) /\ Forest(g)
                    /\ Parents(g, g.roots[1]) = {}
                    /\ \A n \in NodeSet(g) : CDXClassNode(n, v)
RTcdx(e) ==
  LET g0 == NL(e.doc) v == e.fmt IN
  IF ~InClassCDX(g0, v) THEN {"harness.not-in-class"}
  ELSE IF ~Ok(e.w1) \/ ~Ok(e.r1) THEN {"rt.cdx.error"}
  ELSE LET g1 == NL(e.doc1) root == g0.roots[1] IN
       (IF KindPairs(g0) = KindPairs(g1) /\ UniqueIds(g1) THEN {} ELSE {"rt.cdx.nodes"})
       \cup (IF Triples(g0) = Triples(g1) THEN {} ELSE {"rt.cdx.containment"})
       \cup (IF Roots(g0) = Roots(g1) THEN {} ELSE {"rt.cdx.roots"})
       \cup UNION {LET c0 == CarryCDX(NodeOf(g0, i), v) c1 == CarryCDX(NodeOf(g1, i), v) d == Diff(c0, c1, "rt.cdx.attr.") IN
                     \* named deviations of the pinned code (KNOWN_FINDINGS.txt): reported under their own key only
                     \* when the observed value is exactly what the deviation predicts
                     (IF "rt.cdx.attr.name" \in d /\ i = root /\ MetaF(e.doc, "name") # "" /\ c1.name = MetaF(e.doc, "name")
                      THEN {"rt.cdx.root-name-overwritten"} ELSE d \cap {"rt.cdx.attr.name"})
                     \cup (IF "rt.cdx.attr.lics" \in d /\ Len(Sq(NodeOf(g0, i), "licenses")) > 1
                              /\ Sq(NodeOf(g1, i), "licenses") = <<NodeOf(g0, i).licenses[1]>>
                           THEN {"rt.cdx.licenses-first-only"} ELSE d \cap {"rt.cdx.attr.lics"})
                     \* a package node without purpose gets a component type invented by the encoder (the schema requires one)
                     \cup (d \ ({"rt.cdx.attr.name", "rt.cdx.attr.lics"} \cup (IF c0.ptype = 0 THEN {"rt.cdx.attr.ptype"} ELSE {}))) :
                     i \in {j \in Ids(g0) \cap Ids(g1) : NodeOf(g0, j).type = NodeOf(g1, j).type}}
       \cup (IF MetaF(e.doc, "id") = MetaF(e.doc1, "id") THEN {} ELSE {"rt.cdx.serial"})
       \cup (IF MetaF(e.doc, "version") = MetaF(e.doc1, "version") THEN {} ELSE {"rt.cdx.version"})
       \cup (IF v = "cdx15" /\ DocTypes(e.doc) # DocTypes(e.doc1) THEN {"rt.cdx.lifecycles"} ELSE {})
       \cup (IF Ok(e.w2) /\ Ok(e.r2) /\ SameCarried(NL(e.doc2), g1, LAMBDA n : CarryCDX(n, v)) THEN {} ELSE {"rt.cdx.fixpoint"})

(* ------------------------------ C03 ------------------------------------ *)
IdentityAttrs(n, spdxTarget) ==
  [name |-> F(n, "name"),
   version |-> IF spdxTarget /\ n.type = 1 THEN "" ELSE F(n, "version"),           \* SPDX files have no version
   hashes |-> {p \in Rng(Sq(n, "hashes")) : p[1] \in CDXAlgos},                      \* the algorithms both formats support
   purl |-> IF spdxTarget /\ n.type = 1 THEN "" ELSE MapGet(n, "identifiers", 1)]
Identity(e, g0, spdxTarget, pfx) ==
  IF ~Ok(e.r1) THEN (IF e.r1.kind = "skip" THEN {} ELSE {pfx \o "reread-failed"})
  ELSE LET g1 == NL(e.doc1) IN
       IF ~(Ids(g0) \ Rng(e.auto) \subseteq Ids(g1)) THEN {pfx \o "identity.id"}
       ELSE UNION {LET d == Diff(IdentityAttrs(NodeOf(g0, i), spdxTarget), IdentityAttrs(NodeOf(g1, i), spdxTarget), pfx \o "identity.")
                       nameDev == ~spdxTarget /\ (pfx \o "identity.name") \in d /\ g0.roots = <<i>> /\ MetaF(e.doc, "name") # ""
                                  /\ F(NodeOf(g1, i), "name") = MetaF(e.doc, "name")
                       verDev == e.fmt \in {"cdx10", "cdx11", "cdx12", "cdx13"} /\ (pfx \o "identity.version") \in d
                                 /\ F(NodeOf(g0, i), "version") = "" /\ F(NodeOf(g1, i), "version") = "0.0.0"
                   IN (d \ ((IF nameDev THEN {pfx \o "identity.name"} ELSE {}) \cup (IF verDev THEN {pfx \o "identity.version"} ELSE {})))
                      \cup (IF nameDev THEN {"xl.cdx.root-name-overwritten"} ELSE {})
                      \cup (IF verDev THEN {"xl.cdxpre14.version-defaulted"} ELSE {}) : i \in Ids(g0) \ Rng(e.auto)}
XLspdx(e) ==
  LET g0 == NL(e.doc) w == e.wire
      expected == {<<t[1], EdgeName[t[2]], t[3]>> : t \in {u \in Triples(g0) : u[2] \in 1..44}}
                  \cup {<<"DOCUMENT", "DESCRIBES", r>> : r \in Roots(g0)} IN
  IF ~Ok(e.w1) \/ ~WellFormed(g0) \/ "" \in Ids(g0) THEN {}
  ELSE IF "bad" \in DOMAIN w THEN {"xl.spdx.not-json"}
  ELSE (IF BagOf(w.ids) = BagOf(IdsSeq(g0)) /\ Rng(w.kinds) = KindPairs(g0) THEN {} ELSE {"xl.spdx.nodes"})
       \cup (IF expected \subseteq Rng(w.rels) THEN {} ELSE {"xl.spdx.rels-dropped"})
       \cup (IF \A rl \in Rng(w.rels) : rl \in expected \/ rl[2] = "" THEN {} ELSE {"xl.spdx.rels-invented"})
       \cup (IF \A rl \in Rng(w.rels) : {rl[1], rl[3]} \subseteq Rng(w.ids) \cup {"DOCUMENT"} THEN {} ELSE {"xl.spdx.dangling"})
       \cup Identity(e, g0, TRUE, "xl.spdx.")
Legacy(v) == v \in {"cdx10", "cdx11"}          \* no metadata, no dependencies in these versions of the standard
XLcdx(e) ==
  LET g0 == NL(e.doc) w == e.wire IN
  IF ~WellFormed(g0) \/ "" \in Ids(g0) THEN {}
  ELSE IF Ok(e.w1) /\ Len(g0.roots) # 1 /\ ~(g0.nodes = <<>> /\ g0.roots = <<>>) THEN {"xl.cdx.must-error"}
  ELSE IF ~Ok(e.w1) \/ g0.nodes = <<>> THEN {}
  ELSE IF "bad" \in DOMAIN w THEN {"xl.cdx.not-json"}
  ELSE LET root == g0.roots[1] pfx == IF Legacy(e.fmt) THEN "xl.cdxlegacy." ELSE "xl.cdx."
           \* references generated by protobom's own reader ("protobom-auto--...") are erased again on output
           Er(i) == IF i \in Rng(e.auto) /\ i # root THEN "" ELSE i IN
       (IF (IF Forest(g0) /\ Parents(g0, root) = {} THEN BagOf(w.ids) = BagOf([k \in DOMAIN g0.nodes |-> Er(g0.nodes[k].id)])
            ELSE Rng(w.ids) = {Er(i) : i \in Ids(g0)})
        THEN {} ELSE {pfx \o "nodes"})
       \cup (IF Forest(g0) /\ Parents(g0, root) = {}
             THEN (IF \A t \in ContainsT(g0) : <<Er(t[1]), Er(t[3])>> \in Rng(w.nest) THEN {} ELSE {pfx \o "containment"})
             ELSE {})
       \cup (IF \A t \in {u \in Triples(g0) : u[2] = 10} : <<Er(t[1]), Er(t[3])>> \in Rng(w.deps) THEN {} ELSE {pfx \o "deps"})
       \cup (IF \A d \in Rng(w.deps) : d[1] \in Rng(w.ids) /\ (d[2] = "" \/ d[2] \in Rng(w.ids)) THEN {} ELSE {pfx \o "dangling"})
       \cup Identity(e, g0, FALSE, pfx)

(* ------------------------------ C05 ------------------------------------ *)
\* one abstract input parsed in five JSON layouts, twice with auto-detection and once with the format stated
OkRes(e) == {r \in Rng(e.results) : r.o.kind = "ok"}
SameGraph(a, b) == LET x == NL(a.doc) y == NL(b.doc) IN
                   ListCanonS(x) = ListCanonS(y) /\ IdsSeq(x) = IdsSeq(y)
                   /\ MetaF(a.doc, "name") = MetaF(b.doc, "name") /\ MetaF(a.doc, "version") = MetaF(b.doc, "version")
JParse(e) ==
  LET R == Rng(e.results) ok == OkRes(e) IN
  {"parse.total." \o r.o.kind : r \in {x \in R : x.o.kind \notin {"ok", "err"}}}
  \cup (IF \A a, b \in R : (a.layout # "escaped" /\ b.layout # "escaped") => a.o.kind = b.o.kind THEN {} ELSE {"parse.layout.outcome"})
  \cup (IF \A a, b \in ok : (a.layout = b.layout /\ a.mode = b.mode) => SameGraph(a, b) THEN {} ELSE {"parse.deterministic"})
  \cup (IF \A a, b \in ok : (a.layout = b.layout /\ a.mode # b.mode /\ {a.mode, b.mode} \subseteq {"auto", "explicit"}) => SameGraph(a, b)
        THEN {} ELSE {"parse.auto-explicit"})
  \* a parse does not depend on documents parsed (and rejected) before it
  \cup (IF \A a \in {x \in R : x.mode = "auto-after-reject"}, b \in {x \in R : x.mode = "auto" /\ x.layout = "compact"} :
              a.o.kind = b.o.kind /\ (a.o.kind = "ok" => SameGraph(a, b) /\ MetaF(a.doc, "id") = MetaF(b.doc, "id"))
        THEN {} ELSE {"parse.history-dependent"})
  \cup (IF \A a, b \in ok : (a.layout # "escaped" /\ b.layout # "escaped") => SameGraph(a, b) THEN {} ELSE {"parse.layout"})
  \* string escapes: a separate clause because of the known finding in the third-party SPDX decoder
  \cup (IF \A a \in {x \in R : x.layout = "escaped"}, b \in {x \in R : x.layout = "compact"} :
              a.o.kind = b.o.kind /\ (a.o.kind = "ok" => SameGraph(a, b))
        THEN {} ELSE {"parse.layout.escapes." \o e.kind})
  \cup UNION {LET g == NL(r.doc) IN
               (IF "" \in Ids(g) THEN {"parse.id-empty"} ELSE {})
               \cup (IF (e.inputunique => UniqueIds(g)) /\ (r.layout # "escaped" => Cardinality(Ids(g)) = e.inputkeys) THEN {} ELSE {"parse.ids"})
               \cup (IF e.resolves /\ ~Closed(g)
                     THEN (IF e.kind = "spdx" /\ e.docrel
                              /\ \A t \in Triples(g) : {t[1], t[3]} \subseteq Ids(g) \cup {"DOCUMENT"}
                           THEN {"parse.closed.document-endpoint"} ELSE {"parse.closed"})
                     ELSE {})
               \cup (IF NoDup(r.auto) /\ r.autosafe THEN {} ELSE {"parse.autoid"}) : r \in ok}

(* ------------------------------ C06 ------------------------------------ *)
CDXF(v) == "application/vnd.cyclonedx+json;version=" \o v
SPDXJ(v) == "text/spdx+json;version=" \o v
SPDXT(v) == "text/spdx+text;version=" \o v
DStr(d, k) == IF d[k].t = "string" THEN d[k].v ELSE ""
JSniff(e) ==
  LET d == e.decl IN
  (IF e.o.kind = "ok" THEN {} ELSE {"sniff.total." \o e.o.kind})
  \cup (IF e.o.kind = "ok" /\ ((e.res = "") # e.err) THEN {"sniff.result-xor-error"} ELSE {})
  \cup (IF e.o.kind = "ok" /\ e.pos # 0 THEN {"sniff.position"} ELSE {})
  \cup (IF e.restlen >= 0 /\ e.restlen # e.len THEN {"sniff.consumed"} ELSE {})
  \cup (IF e.want # "" /\ e.res # e.want THEN {"sniff.writer-output"} ELSE {})
  \* a reported format is backed by the declaration, and its accessors agree with it
  \cup (IF e.res = "" THEN {}
        ELSE IF d.object
        THEN (IF \/ (d.bf_fold /\ e.res = CDXF(DStr(d, "specVersion")) /\ e.atype = "cyclonedx"
                      /\ e.aversion = DStr(d, "specVersion") /\ e.aenc = "json")
                 \/ (~d.bf_fold /\ DStr(d, "spdxVersion") = "SPDX-" \o e.aversion /\ e.res = SPDXJ(e.aversion)
                      /\ e.atype = "spdx" /\ e.aenc = "json")
              THEN {} ELSE {"sniff.unfounded"})
        ELSE (IF d.tv = "SPDX-" \o e.aversion /\ e.res = SPDXT(e.aversion) /\ e.atype = "spdx" /\ e.aenc = "text"
              THEN {} ELSE {"sniff.unfounded"}))
  \* the remaining accessors are consistent with the version accessor
  \cup (IF e.res # "" /\ "amajor" \in DOMAIN e /\ e.aversion # e.amajor \o "." \o e.aminor THEN {"sniff.accessors.major-minor"} ELSE {})
  \* an exact declaration of a readable format is detected (any layout of it)
  \cup (IF "preread" \notin DOMAIN e /\ d.object /\ DStr(d, "bomFormat") = "CycloneDX" /\ DStr(d, "specVersion") \in {"1.3", "1.4", "1.5"}
           /\ d.spdxVersion.t \in {"absent", "string"} /\ e.res # CDXF(DStr(d, "specVersion")) THEN {"sniff.missed"} ELSE {})
  \cup (IF "preread" \notin DOMAIN e /\ d.object /\ d.bomFormat.t = "absent" /\ d.specVersion.t = "absent" /\ DStr(d, "spdxVersion") = "SPDX-2.3"
           /\ e.res # SPDXJ("2.3") THEN {"sniff.missed"} ELSE {})

\* a destination that stops accepting bytes: a write that reports success there has swallowed the error (C03: the output
\* of a SUCCESSFUL write contains every node)
Swallowed(e) == IF "swallowed" \in DOMAIN e /\ e.swallowed # <<>> THEN {"xl.write.error-swallowed"} ELSE {}
Outcomes(e) == {"total." \o e.fmt \o "." \o o.kind : o \in {x \in {e.w1, e.r1, e.w2, e.r2} : x.kind \in {"panic", "hang", "both", "neither", "exit"}}}

\* observations beyond the listed properties (never a violation, reported in the evidence): the path-taking entry
\* points agree with the stream ones; document-level metadata that the formats carry
Extras(e) ==
  (IF "file" \in DOMAIN e /\ e.file \notin {"same", "skip"} THEN {"obs.file-api." \o e.file} ELSE {})
  \cup (IF Ok(e.w1) /\ Ok(e.r1) /\ e.fmt = "spdx23" /\ MetaF(e.doc, "name") # MetaF(e.doc1, "name") THEN {"obs.spdx.meta.name"} ELSE {})
  \cup (IF Ok(e.w1) /\ Ok(e.r1) /\ e.fmt \in {"cdx14", "cdx15"} /\ "metadata" \in DOMAIN e.doc /\ "metadata" \in DOMAIN e.doc1
           /\ Len(Sq(e.doc.metadata, "authors")) # Len(Sq(e.doc1.metadata, "authors")) THEN {"obs.cdx.meta.authors"} ELSE {})
  \cup (IF Ok(e.w1) /\ Ok(e.r1) /\ "metadata" \in DOMAIN e.doc /\ "metadata" \in DOMAIN e.doc1
           /\ Len(Sq(e.doc1.metadata, "tools")) < Len(Sq(e.doc.metadata, "tools")) THEN {"obs." \o e.fmt \o ".meta.tools-lost"} ELSE {})
  \* comment, date (to the second), authors and identifier of the document across one write / read pass
  \cup (IF Ok(e.w1) /\ Ok(e.r1) /\ "metadata" \in DOMAIN e.doc /\ "metadata" \in DOMAIN e.doc1
        THEN (IF MetaF(e.doc, "comment") # MetaF(e.doc1, "comment") THEN {"obs." \o e.fmt \o ".meta.comment"} ELSE {})
             \cup (IF "date" \in DOMAIN e.doc.metadata /\ ("date" \notin DOMAIN e.doc1.metadata \/ e.doc1.metadata.date.sec # e.doc.metadata.date.sec)
                   THEN {"obs." \o e.fmt \o ".meta.date"} ELSE {})
             \cup (IF Len(Sq(e.doc1.metadata, "authors")) < Len(Sq(e.doc.metadata, "authors")) THEN {"obs." \o e.fmt \o ".meta.authors-lost"} ELSE {})
             \cup (IF MetaF(e.doc, "id") # MetaF(e.doc1, "id") THEN {"obs." \o e.fmt \o ".meta.id"} ELSE {})
        ELSE {})

Judge(e) ==
  CASE e.op = "RT" ->
         Outcomes(e) \cup Extras(e) \cup Swallowed(e)
         \cup (IF e.cls = "spdx" THEN RTspdx(e) ELSE IF e.cls \in {"cdx14", "cdx15"} THEN RTcdx(e) ELSE {})
         \cup (IF e.fmt = "spdx23" THEN XLspdx(e) ELSE XLcdx(e))
    [] e.op = "PF" ->
         \* parser totality (C04): every entry point returns a document with metadata and node list, or an error
         (IF "died" \in DOMAIN e
          THEN (IF e.biglicenses THEN {"pf.cdx-licenses-exponential"} ELSE {"pf.process-died"}) ELSE {})
         \cup
         UNION {IF r.o.kind = "err" THEN {}
                ELSE IF r.o.kind = "ok" THEN (IF r.mode = "sniff" \/ (r.meta /\ r.nl) THEN {} ELSE {"pf." \o r.mode \o ".partial-document"})
                \* known finding: the CycloneDX licence expression doubles per entry; only inputs with a long licence list
                ELSE IF r.o.kind \in {"hang", "exit"} /\ e.biglicenses /\ r.mode \in {"auto", "cdx13", "cdx15"}
                     THEN {"pf.cdx-licenses-exponential"}
                ELSE {"pf." \o r.mode \o "." \o r.o.kind} : r \in Rng(e.results)}
    [] e.op = "TABLES" ->
         \* the enum tables behind the SPDX translators: 44 relationship names (SPDX 2.3), the 16 shared checksum
         \* algorithms, the 4 identifier types - each value maps to its name and back to itself
         (IF \A r \in Rng(e.edges) : IF r[1] \in 1..44 THEN r[2] = EdgeName[r[1]] /\ r[3] = r[1] /\ r[4] = r[1] ELSE r[2] = ""
          THEN {} ELSE {"rt.spdx.table.relationships"})
         \* the second, older public name table (not used by the translators): an observation only
         \cup {"obs.table.EdgeTypeFromSPDX." \o r[2] : r \in {x \in Rng(e.edges) : x[1] \in 1..44 /\ Len(x) >= 5 /\ x[5] # x[1]}}
         \cup (IF \A r \in Rng(e.hashes) : IF r[1] \in SPDXAlgos THEN r[2] # "" /\ r[3] = r[1] ELSE r[2] = ""
               THEN {} ELSE {"rt.spdx.table.checksums"})
         \cup (IF Cardinality({r[2] : r \in {x \in Rng(e.hashes) : x[1] \in SPDXAlgos}}) = 16 THEN {} ELSE {"rt.spdx.table.checksums"})
         \cup (IF \A r \in Rng(e.idtypes) : IF r[1] \in 1..4 THEN r[2] # "" /\ r[3] # "OTHER" /\ r[4] = r[1] ELSE r[2] = ""
               THEN {} ELSE {"rt.spdx.table.identifiers"})
    [] e.op = "PARSE" -> JParse(e)
    [] e.op = "IDGEN" ->
         (IF e.o.kind = "ok" THEN {} ELSE {"idgen.total"})
         \cup (IF e.nonempty /\ e.safe THEN {} ELSE {"idgen.alphabet"})
         \cup (IF e.usable /\ e.id1 # e.id2 THEN {"idgen.deterministic"} ELSE {})
    [] e.op = "IDGENSWEEP" -> IF e.bad = <<>> THEN {} ELSE {"idgen.alphabet"}
    [] e.op = "SNIFF" -> JSniff(e)
    [] e.op = "SNIFFPATH" ->
         \* a path that cannot be read as a file: an error, no format, no panic
         (IF e.o.kind = "ok" THEN {} ELSE {"sniff.total." \o e.o.kind})
         \cup (IF e.o.kind = "ok" /\ ~(e.err /\ e.res = "") THEN {"sniff.path." \o e.case} ELSE {})
    [] OTHER -> {"unknown-op." \o e.op}

Init == l = 1
Next == /\ l <= Len(Trace)
        /\ LET e == Trace[l] v == Judge(e) IN IF v = {} THEN TRUE ELSE PrintT(<<"VERDICT", e.sid, l, v>>)
        /\ l' = l + 1
Spec == Init /\ [][Next]_vars
Done == TLCGet("stats").diameter - 1 = Len(Trace)
=============================================================================
