------------------------------ MODULE Translate -------------------------------
(***************************************************************************)
(* What the two target formats can carry of a protobom node (C01, C02)     *)
(* and what a successful write must contain (C03), over the projected      *)
(* record form.  The carry tables are facts of SPDX 2.3 / CycloneDX 1.4 /  *)
(* 1.5 (DESIGN.md Appendix B), not read from the code.                     *)
(***************************************************************************)
EXTENDS NodeOps

F(n, f)   == IF f \in DOMAIN n THEN n[f] ELSE ""
Sq(n, f)  == IF f \in DOMAIN n THEN n[f] ELSE <<>>
Sec(n, f) == IF f \in DOMAIN n THEN n[f].sec ELSE ""
\* an SPDX actor carries a name, the person / organization flag and an optional e-mail address ("Name (e-mail)")
FirstPerson(n, f) == IF Sq(n, f) # <<>>
                     THEN <<[name |-> n[f][1].name, org |-> "is_org" \in DOMAIN n[f][1], email |-> F(n[f][1], "email")]>>
                     ELSE <<>>
FirstOf(s) == IF s = <<>> THEN 0 ELSE s[1]
NL(d) == d.node_list
MetaF(d, f) == IF "metadata" \in DOMAIN d THEN F(d.metadata, f) ELSE ""

(* ------------------------------- SPDX 2.3 ------------------------------ *)
SPDXAlgos    == (1..17) \ {13}                              \* all but MD2
SPDXPurposes == {1, 14, 16, 5, 21, 7, 13, 26, 2, 12, 15, 22}
SPDXRefs     == {4, 26, 29, 30, 44, 46, 47, 31}             \* BOWER MAVEN NPM NUGET SEC_ADVISORY SEC_FIX SEC_OTHER OTHER
EdgeName == <<"AMENDS", "ANCESTOR_OF", "BUILD_DEPENDENCY_OF", "BUILD_TOOL_OF", "CONTAINS", "CONTAINED_BY", "COPY_OF",
  "DATA_FILE_OF", "DEPENDENCY_MANIFEST_OF", "DEPENDS_ON", "DEPENDENCY_OF", "DESCENDANT_OF", "DESCRIBES", "DESCRIBED_BY",
  "DEV_DEPENDENCY_OF", "DEV_TOOL_OF", "DISTRIBUTION_ARTIFACT", "DOCUMENTATION_OF", "DYNAMIC_LINK", "EXAMPLE_OF",
  "EXPANDED_FROM_ARCHIVE", "FILE_ADDED", "FILE_DELETED", "FILE_MODIFIED", "GENERATES", "GENERATED_FROM", "METAFILE_OF",
  "OPTIONAL_COMPONENT_OF", "OPTIONAL_DEPENDENCY_OF", "OTHER", "PACKAGE_OF", "PATCH_APPLIED", "HAS_PREREQUISITE",
  "PREREQUISITE_FOR", "PROVIDED_DEPENDENCY_OF", "REQUIREMENT_DESCRIPTION_FOR", "RUNTIME_DEPENDENCY_OF", "SPECIFICATION_FOR",
  "STATIC_LINK", "TEST_OF", "TEST_CASE_OF", "TEST_DEPENDENCY_OF", "TEST_TOOL_OF", "VARIANT_OF">>
ASSUME Len(EdgeName) = 44 /\ Cardinality(Rng(EdgeName)) = 44         \* injective: 44 distinct relationship types

RefsCarried(n, Types, withHashes, Algos) ==
  {[t |-> r.type, u |-> F(r, "url"), c |-> F(r, "comment"),
    h |-> IF withHashes THEN {p \in Rng(Sq(r, "hashes")) : p[1] \in Algos} ELSE {}] :
     r \in {x \in Rng(Sq(n, "external_references")) : x.type \in Types /\ F(x, "url") # ""}}

CarrySPDX(n) ==
  IF n.type = 1
  THEN [kind |-> 1, name |-> F(n, "name"),
        lic |-> IF F(n, "license_concluded") = "NOASSERTION" THEN "" ELSE F(n, "license_concluded"),
        licc |-> F(n, "license_comments"),
        cr |-> IF F(n, "copyright") = "" THEN "NONE" ELSE F(n, "copyright"),
        hashes |-> {p \in Rng(Sq(n, "hashes")) : p[1] \in SPDXAlgos}]
  ELSE [kind |-> 0, name |-> F(n, "name"), version |-> F(n, "version"), file_name |-> F(n, "file_name"),
        url_home |-> F(n, "url_home"),
        dl |-> IF F(n, "url_download") = "" THEN "NOASSERTION" ELSE F(n, "url_download"),
        lic |-> IF F(n, "license_concluded") = "NOASSERTION" THEN "" ELSE F(n, "license_concluded"),
        licc |-> F(n, "license_comments"), cr |-> F(n, "copyright"),
        hashes |-> {p \in Rng(Sq(n, "hashes")) : p[1] \in SPDXAlgos},
        idents |-> {p \in Rng(Sq(n, "identifiers")) : p[1] \in 1..4},
        refs |-> RefsCarried(n, SPDXRefs, FALSE, {}),
        purpose |-> IF FirstOf(Sq(n, "primary_purpose")) \in SPDXPurposes THEN FirstOf(Sq(n, "primary_purpose")) ELSE 0,
        released |-> Sec(n, "release_date"), built |-> Sec(n, "build_date"), valid |-> Sec(n, "valid_until_date"),
        sup |-> FirstPerson(n, "suppliers"), orig |-> FirstPerson(n, "originators")]

(* ------------------------------ CycloneDX ------------------------------ *)
CDXAlgos == 1..12
CDXPurposes(v) == {1, 14, 16, 5, 21, 7, 13} \cup (IF v = "cdx15" THEN {24, 8, 17, 6} ELSE {})
CDX14Refs == {3, 5, 6, 8, 14, 13, 21, 22, 24, 31, 32, 39, 44, 45, 52, 55, 56, 60}
CDX15OnlyRefs == {43, 1, 7, 9, 10, 11, 12, 15, 17, 59, 19, 23, 25, 28, 48, 37, 40, 41, 54, 51, 57}
CDXRefs(v) == CDX14Refs \cup (IF v = "cdx15" THEN CDX15OnlyRefs ELSE {})
CarryCDX(n, v) ==
  [kind |-> n.type, name |-> F(n, "name"), version |-> F(n, "version"), description |-> F(n, "description"),
   copyright |-> F(n, "copyright"),
   ptype |-> IF n.type = 1 THEN 0
             ELSE IF FirstOf(Sq(n, "primary_purpose")) \in CDXPurposes(v) THEN FirstOf(Sq(n, "primary_purpose")) ELSE 0,
   hashes |-> {p \in Rng(Sq(n, "hashes")) : p[1] \in CDXAlgos},
   purl |-> MapGet(n, "identifiers", 1),
   \* one CPE per component: the 2.3 form when it has a value, else the 2.2 form
   cpe |-> IF MapGet(n, "identifiers", 3) # "" THEN MapGet(n, "identifiers", 3) ELSE MapGet(n, "identifiers", 2),
   lics |-> BagOf(Sq(n, "licenses")),
   refs |-> RefsCarried(n, CDXRefs(v), TRUE, CDXAlgos)]
\* in the CycloneDX class: kind FILE <=> component type file, i.e. a package node is not of purpose FILE
CDXClassNode(n, v) == n.type = 1 \/ FirstOf(Sq(n, "primary_purpose")) # 12

DocTypes(d) == IF "metadata" \in DOMAIN d /\ "documentTypes" \in DOMAIN d.metadata
               THEN [i \in DOMAIN d.metadata.documentTypes |->
                       IF "type" \in DOMAIN d.metadata.documentTypes[i] THEN d.metadata.documentTypes[i].type ELSE -1] ELSE <<>>

(* ---------------------- containment forest (C02, C03) ------------------- *)
ContainsT(g) == {t \in Triples(g) : t[2] = 5 /\ t[1] # t[3]}
Parents(g, n) == {t[1] : t \in {u \in ContainsT(g) : u[3] = n}}
ContainsGraph(g) == FromViews(NodeSet(g), ContainsT(g), {})
\* every node has at most one containing node and is reachable through containment from a node without one
Forest(g) == LET cg == ContainsGraph(g)
                 CT == ContainsT(g)
                 par(n) == {t[1] : t \in {u \in CT : u[3] = n}}
                 tops == {i \in Ids(g) : par(i) = {}}
                 covered == UNION {ReachAll(cg, r) : r \in tops} IN   \* one traversal per top node (deep chains: hundreds of levels)
             /\ \A i \in Ids(g) : Cardinality(par(i)) <= 1
             /\ Ids(g) \subseteq covered
=============================================================================
