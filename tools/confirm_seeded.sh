#!/bin/bash
# tools/confirm_seeded.sh <property> <A|B>: confirms a sub-agent's mutation in its scratch worktree /tmp/mut/<property>:
# demo passes on the clean tree; with the patch the tree builds and the unedited suite passes; with the patch the demo fails.
set -u
P=$1; M=$2; B=${MUTBASE:-/tmp/mut}; W=$B/$P; O=$B/out/$P/$M
export GOFLAGS=-mod=mod GOPROXY=off GOSUMDB=off GOTOOLCHAIN=local
cd $W || exit 2
git checkout -q -- . ; git clean -fdq
PKG=$(python3 -c "import json;print(json.load(open('$O/meta.json')).get('demo_package','pkg/sbom'))")
RACE=""; grep -q "race" $O/meta.json && [ "$P" = "C17" ] && RACE="-race"
RUN=$(grep -o "^func Test[A-Za-z0-9_]*" $O/demo_test.go | sed 's/func //' | paste -sd'|')
cp $O/demo_test.go $PKG/zz_seeded_demo_test.go
go test -vet=off -count=1 $RACE -run "^($RUN)\$" ./$PKG/ > $O/clean.log 2>&1; c1=$?
rm $PKG/zz_seeded_demo_test.go
git apply $O/patch.diff || { echo "$P-$M patch does not apply"; git checkout -q -- .; exit 2; }
go build ./... > $O/build.log 2>&1; c2=$?
go test -vet=off -count=1 ./... > $O/suite.log 2>&1; c3=$?
cp $O/demo_test.go $PKG/zz_seeded_demo_test.go
go test -vet=off -count=1 $RACE -run "^($RUN)\$" ./$PKG/ > $O/mutated.log 2>&1; c4=$?
rm $PKG/zz_seeded_demo_test.go
git checkout -q -- . ; git clean -fdq
echo "$P-$M demo_clean=$c1 build=$c2 suite=$c3 demo_mutated=$c4"
[ $c1 = 0 ] && [ $c2 = 0 ] && [ $c3 = 0 ] && [ $c4 != 0 ]
