#!/bin/bash
# tools/coverage_audit.sh [checks...] - audit, not a check: which statements of the library do the quick checks execute?
# Builds the harness with -cover, runs the named checks (default: all), merges the counters and prints the functions of
# the library that are not fully covered.  Writes build/coverage.txt (go cover profile).  Uncovered code is where a change
# could hide from the conformance checks.
cd "$(dirname "$0")/.."
export VERIF_COVER=1 GOCOVERDIR=$(mktemp -d /tmp/vh-cover.XXXXXX)
export GOFLAGS=-mod=mod GOPROXY=off GOSUMDB=off GOTOOLCHAIN=local
checks=${@:-C01 C02 C03 C04 C05 C06 C07 C08 C09 C10 C11 C12 C13 C14 C15 C16 C17 C18 C19 C20}
for p in $checks; do ./check $p >/dev/null 2>&1; echo "$p rc=$?"; done
go tool covdata textfmt -i=$GOCOVERDIR -o build/coverage.txt
(cd harness && go tool cover -func=../build/coverage.txt) | grep -v '100.0%' | grep 'protobom/protobom/pkg' | grep -v 'pb.go\|fakes' | sort -k3 -n | head -150
rm -rf $GOCOVERDIR
unset VERIF_COVER
