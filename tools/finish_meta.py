#!/usr/bin/env python3
"""tools/finish_meta.py - completes seeded/<id>/meta.json of the round-2 and round-3 changes from result.json (current checks)
and result.round2-before.json (the checks as they were when the change was written)."""
import glob
import json
import os

here = os.path.dirname(os.path.dirname(os.path.abspath(__file__)))
import re
for d in sorted(glob.glob(os.path.join(here, "seeded", "*-R[234567]?"))):
    rnd = int(re.search(r"-R(\d)", d).group(1))
    mp = os.path.join(d, "meta.json")
    meta = json.load(open(mp))
    res = json.load(open(os.path.join(d, "result.json")))
    before_p = os.path.join(d, "result.round%d-before.json" % rnd)
    before = json.load(open(before_p)) if os.path.exists(before_p) else {}
    meta["breaks_property"] = meta["property"]
    meta["round"] = rnd
    meta["confirmed_by"] = {
        "tool": "tools/confirm_seeded.sh (scratch worktree of /repo under /tmp, removed afterwards)",
        "steps": ["demo test passes on the clean tree",
                  "patch applies; go build ./... succeeds; go test -vet=off -count=1 ./... passes without the demo",
                  "demo test fails with the patch"],
        "result": "demo_clean=0 build=0 suite=0 demo_mutated=1"}
    meta["checks_run"] = {
        "tool": "tools/try_seeded.py (git -C /repo apply patch.diff; ./check <id> --tier quick; git -C /repo checkout -- .)",
        "before_strengthening": before, "results": res}
    meta["caught_by"] = sorted(p for p, r in res.items() if r.get("exit") == 1)
    meta["caught_before_strengthening"] = sorted(p for p, r in before.items() if r.get("exit") == 1)
    json.dump(meta, open(mp, "w"), indent=1, ensure_ascii=False)
    print(os.path.basename(d), meta["caught_before_strengthening"], "->", meta["caught_by"])
