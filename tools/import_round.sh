#!/bin/bash
# tools/import_round.sh <round> <P>... : copies confirmed outputs from /tmp/mut<round>/out into seeded/<P>-R<round>{A,B}
cd "$(dirname "$0")/.."
R=$1; shift
for P in "$@"; do for M in A B; do
  [ -f /tmp/mut$R/out/$P/$M/patch.diff ] || continue
  d=seeded/$P-R$R$M; mkdir -p $d
  cp /tmp/mut$R/out/$P/$M/patch.diff /tmp/mut$R/out/$P/$M/demo_test.go /tmp/mut$R/out/$P/$M/meta.json $d/
done; done
