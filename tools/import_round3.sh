#!/bin/bash
# tools/import_round3.sh <P>... : copies confirmed round-3 outputs from /tmp/mut3/out into seeded/<P>-R3{A,B}
cd "$(dirname "$0")/.."
for P in "$@"; do for M in A B; do
  d=seeded/$P-R3$M; mkdir -p $d
  cp /tmp/mut3/out/$P/$M/patch.diff /tmp/mut3/out/$P/$M/demo_test.go /tmp/mut3/out/$P/$M/meta.json $d/
done; done
