#!/bin/bash
# tools/runall.sh [seed] [tier] - runs every check once, prints one line per check (exit code, seconds, last line)
cd "$(dirname "$0")/.."
export VERIF_SEED=${1:-1}
tier=${2:-quick}
bad=0
for p in C01 C02 C03 C04 C05 C06 C07 C08 C09 C10 C11 C12 C13 C14 C15 C16 C17 C18 C19 C20; do
  t0=$(date +%s)
  out=$(./check $p --tier $tier 2>&1); rc=$?
  t1=$(date +%s)
  echo "$p rc=$rc $((t1-t0))s $(echo "$out" | grep -c '^VIOLATION') violations | $(echo "$out" | tail -1 | cut -c1-160)"
  [ $rc -ne 0 ] && { bad=1; echo "$out" | grep -E 'VIOLATION|INFRA|Error' | head -5; }
done
exit $bad
