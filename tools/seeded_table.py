#!/usr/bin/env python3
"""Rewrites section 14 of DESIGN.md from /verif/seeded/*/{meta,result}.json."""
import glob
import json
import os
import re

here = os.path.dirname(os.path.dirname(os.path.abspath(__file__)))
rows = []
for d in sorted(glob.glob(os.path.join(here, "seeded", "*"))):
    meta = json.load(open(os.path.join(d, "meta.json")))
    res = json.load(open(os.path.join(d, "result.json"))) if os.path.exists(os.path.join(d, "result.json")) else {}
    caught = [p for p, r in res.items() if r.get("exit") == 1]
    clauses = sorted({c for p, r in res.items() if r.get("exit") == 1 for c in r.get("violating_clauses", [])})[:4]
    rnd = re.search(r"-R(\d)", d)
    bp = os.path.join(d, "result.round%s-before.json" % (rnd.group(1) if rnd else "0"))
    before = ""
    if os.path.exists(bp):
        b = json.load(open(bp))
        before = " (round " + rnd.group(1) + "; before strengthening: %s)" % ("caught" if any(r.get("exit") == 1 for r in b.values()) else
                                                           "exit 2" if any(r.get("exit") == 2 for r in b.values()) else "missed")
    rows.append("| %s | %s | %s | %s | %s |" % (
        os.path.basename(d), ", ".join(os.path.basename(f) for f in meta.get("files", []))[:60],
        re.sub(r"\s+", " ", meta.get("summary", ""))[:170].replace("|", "/"),
        re.sub(r"\s+", " ", meta.get("needs", ""))[:150].replace("|", "/"),
        ((", ".join(caught) + ": `" + "`, `".join(clauses) + "`") if caught else "**not caught**") + before))
table = ("## 14. Seeded changes and which checks catch them\n\n"
         "Written in seven rounds by independent sub-agents (one per property and round; two changes each in rounds 1-6 = 240, one each in round 7 plus six in a second batch = 26; the second round was\n"
         "asked for subtler changes, the third for the less prominent clauses, shared helpers and interactions between operations, the fourth for combinations of features, corner values, hidden state kept between calls and helper code in other packages, the fifth for thresholds, boundary arithmetic, Unicode and line endings, swallowed errors and version-specific branches, the sixth for asymmetries, non-strict comparators, error-message paths and first-call behaviour, the seventh - run at the start of the second session against the checks as committed - for plausible maintainer commits: caches, early returns, de-duplication, recovery code) that saw only the property text and a scratch worktree.  Each change compiles, passes the unedited suite, and comes with a demonstration test that fails with the change\n"
         "and passes without it (re-confirmed with tools/confirm_seeded.sh).  `tools/try_seeded.py` applies the patch to /repo, runs the\n"
         "quick check(s), restores /repo and writes result.json.  Where a check first missed a change it was strengthened (see the\n"
         "commit log of /verif and section 0.45); the column shows the state after strengthening.\n\n"
         "| id | files | change | needs | caught by (quick tier): clauses |\n|---|---|---|---|---|\n" + "\n".join(rows) + "\n")
p = os.path.join(here, "DESIGN.md")
s = open(p).read()
if "## 14. Seeded changes" in s:
    s = s[:s.index("## 14. Seeded changes")]
s = s.rstrip("\n") + "\n\n" + table
open(p, "w").write(s)
print(len(rows), "rows")
