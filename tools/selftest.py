#!/usr/bin/env python3
"""tools/selftest.py - demonstrates that every trace specification is bound to what it reads:
a trace recorded from the real code is accepted, and the same trace with ONE recorded field corrupted is
rejected with the expected clause.  A trace specification that accepts a corrupted trace is a broken check.
Exit 0: all corruptions rejected; exit 1: some corruption was accepted; exit 2: infrastructure."""
import copy
import json
import os
import re
import sys

HERE = os.path.dirname(os.path.dirname(os.path.abspath(__file__)))
sys.path.insert(0, os.path.join(HERE, "lib"))
from common import Infra, Scratch, build_harness, run, validate_trace  # noqa: E402
from simple import gen_schema  # noqa: E402


def load(path):
    return [json.loads(l) for l in open(path)]


def dump(events, path):
    with open(path, "w") as f:
        for e in events:
            f.write(json.dumps(e, ensure_ascii=False, separators=(",", ":")) + "\n")


def first(events, pred):
    for i, e in enumerate(events):
        if pred(e):
            return i
    return None


def case(name, module, cfg, trace, pred, mutate, expect, scratch, results):
    events = load(trace)
    i = first(events, pred)
    if i is None:
        results.append((name, "SKIP (no suitable event in the recorded trace)"))
        return
    ev = copy.deepcopy(events)
    mutate(ev[i])
    path = scratch.path("selftest-%s.ndjson" % re.sub(r"\W", "_", name))
    dump(ev, path)
    verdicts, _ = validate_trace(scratch, module, cfg, path)
    hit = sorted({c for (_, line, c) in verdicts if line == i + 1 or True})
    ok = any(re.match(expect, c) for c in hit)
    results.append((name, "rejected with %s" % [c for c in hit if re.match(expect, c)][:3] if ok else "ACCEPTED (verdicts: %s)" % hit[:5]))
    return ok


def main():
    scratch = Scratch()
    results = []
    try:
        vh = build_harness()
        gen_schema(vh)
        # ---- graph machine
        scripts, trace = scratch.path("g.scripts"), scratch.path("g.trace")
        run([vh, "graph-gen", "--mode", "edit", "--n", "120", "--len", "10", "--ids", "5", "--out", scripts])
        run([vh, "graph-run", "--scripts", scripts, "--out", trace, "--heap"])
        base, _ = validate_trace(scratch, "TraceGraph", "TraceGraph.cfg", trace)
        # frames of the in-place operations are observations, not clauses of any property (aliasing after RelateNodeListAtID)
        base = [v for v in base if not re.match(r"^frame\.(Add|Remove|RelateNode|RelateList|AddNode|AddRootNode|AddEdge)\.", v[2])]
        results.append(("graph: recorded trace", "accepted" if not base else "REJECTED %s" % base[:3]))
        big = lambda e, op: e.get("op") == op and e.get("res", {}).get("kind") == "ok" and len(e.get("ch", {}).get(e.get("out"), {}).get("nodes", [])) >= 2
        case("graph: union result loses a node", "TraceGraph", "TraceGraph.cfg", trace, lambda e: big(e, "Union"),
             lambda e: e["ch"][e["out"]]["nodes"].pop(), r"union\.nodes|union\..*", scratch, results)
        case("graph: union result gains a root", "TraceGraph", "TraceGraph.cfg", trace, lambda e: big(e, "Union"),
             lambda e: e["ch"][e["out"]]["roots"].append("intruder"), r"union\.roots|Union\.wf\.root", scratch, results)
        case("graph: intersect result gains an edge", "TraceGraph", "TraceGraph.cfg", trace, lambda e: big(e, "Intersect"),
             lambda e: e["ch"][e["out"]]["edges"].append({"type": 5, "from": e["ch"][e["out"]]["nodes"][0]["id"], "to": ["zz-nowhere"]}),
             r"intersect\.edges|Intersect\.wf\..*", scratch, results)
        case("graph: a lookup changes an unrelated register", "TraceGraph", "TraceGraph.cfg", trace,
             lambda e: e.get("op") in ("Graph", "Siblings", "Descendants") and "ch" in e,
             lambda e: e["ch"].update({"r9": {"nodes": [], "edges": [], "roots": ["x"]}}), r"frame\..*", scratch, results)
        case("graph: descendants result misses the start node", "TraceGraph", "TraceGraph.cfg", trace, lambda e: big(e, "Descendants"),
             lambda e: e["ch"][e["out"]].update({"roots": []}), r"descendants\.roots", scratch, results)
        # ---- node equality / diff
        tn = scratch.path("n.trace")
        run([vh, "node-run", "--mode", "eq", "--n", "6", "--out", tn])
        case("node: Equal claimed for a perturbed pair", "TraceNode", "TraceNode.cfg", tn,
             lambda e: e.get("op") == "NodeEq" and str(e.get("how", "")).startswith("perturb") and not e["eq"] and not e["sep"],
             lambda e: e.update({"eq": True, "eqba": True, "csb": e["csa"]}), r"eq\.node\.sound", scratch, results)
        case("node: Equal denied for a shuffled pair", "TraceNode", "TraceNode.cfg", tn,
             lambda e: e.get("op") == "NodeEq" and e.get("how") == "permuted" and e["eq"],
             lambda e: e.update({"eq": False, "eqba": False, "csb": "x"}), r"eq\.node\.complete", scratch, results)
        td = scratch.path("d.trace")
        run([vh, "node-run", "--mode", "diff", "--n", "6", "--out", td])
        case("diff: a difference goes unreported", "TraceNode", "TraceNode.cfg", td,
             lambda e: e.get("op") == "Diff" and not e["isnil"] and not e["sep"],
             lambda e: e.update({"isnil": True}), r"diff\.detect", scratch, results)
        case("diff: wrong count", "TraceNode", "TraceNode.cfg", td, lambda e: e.get("op") == "Diff" and not e["isnil"] and not e["sep"],
             lambda e: e.update({"count": e["count"] + 1}), r"diff\.count", scratch, results)
        # ---- configuration
        tc = scratch.path("c.trace")
        run([vh, "config-run", "--n", "10", "--out", tc])
        case("config: an earlier instance changes", "TraceConfig", "TraceConfig.cfg", tc,
             lambda e: e.get("op") == "NewWriter" and len(e["insts"]) >= 2,
             lambda e: e["insts"][0].update({"indent": "99"}), r"config\.new\.others", scratch, results)
        case("config: defaults change", "TraceConfig", "TraceConfig.cfg", tc, lambda e: e.get("op") == "NewWriter",
             lambda e: e["fresh"].update({"format": "cdx15"}), r"config\.defaults", scratch, results)
        case("config: a per-call format option does not reach the driver", "TraceConfig", "TraceConfig.cfg", tc,
             lambda e: e.get("op") == "WriteCall" and e.get("callfopt") and not str(e.get("variant", "")).startswith("fail"),
             lambda e: e.update({"gotfopt": "", "gotrenderfopt": ""}),
             r"config\.call\.fopt", scratch, results)
        # ---- dispatch pipeline (behaviours exported by TLC, replayed on the real reader / writer)
        from graph import export_scripts
        ps, tp = scratch.path("p.scripts"), scratch.path("p.trace")
        export_scripts(scratch, 48, 20, ps, cfg="Pipeline_sim.cfg", module="Pipeline")
        run([vh, "pipe-run", "--scripts", ps, "--out", tp])
        base, _ = validate_trace(scratch, "TracePipeline", "TracePipeline.cfg", tp)
        results.append(("pipeline: recorded trace", "accepted" if not [v for v in base if "options-nil-panics" not in v[2]] else "REJECTED %s" % base[:3]))
        case("pipeline: a write answers with another driver", "TracePipeline", "TracePipeline.cfg", tp,
             lambda e: e.get("op") == "Write" and e.get("res", {}).get("kind") == "ok" and e["res"]["driver"].startswith("fake"),
             lambda e: e["res"].update({"driver": "builtin-cdx15"}), r"pipe\.write\.(result|precedence)", scratch, results)
        case("pipeline: a parse fails at another stage", "TracePipeline", "TracePipeline.cfg", tp,
             lambda e: e.get("op") == "Parse" and e.get("res", {}).get("stage") == "lookup",
             lambda e: e["res"].update({"stage": "detect"}), r"pipe\.parse\.result", scratch, results)
        # a registration whose driver later answers a parse of the same script: dropping it must be noticed
        evs = load(tp)
        used = set()
        for i, e in enumerate(evs):
            if e.get("op") == "RegisterR" and e.get("d") in ("fake1", "fake2"):
                for later in evs[i + 1:]:
                    if later.get("sid") != e.get("sid") or (later.get("op") in ("RegisterR", "UnregisterR") and later.get("f") == e["f"]):
                        break
                    if later.get("op") == "Parse" and later.get("res", {}).get("driver") == e["d"]:
                        used.add(i)
                        break
        case("pipeline: a registration is forgotten", "TracePipeline", "TracePipeline.cfg", tp,
             lambda e: evs.index(e) in used if e.get("op") == "RegisterR" else False,
             lambda e: e.update({"op": "NewWriter", "f": ""}), r"pipe\.parse\..*", scratch, results)
        # ---- store
        ts = scratch.path("s.trace")
        run([vh, "store-run", "--n", "6", "--out", ts])
        case("store: retrieve returns another document", "TraceStore", "TraceStore.cfg", ts,
             lambda e: e.get("op") == "Retrieve" and e["res"]["kind"] == "ok",
             lambda e: e["doc"]["metadata"].update({"name": "someone else"}), r"store\.retrieve\.content", scratch, results)
        case("store: process exit instead of an error", "TraceStore", "TraceStore.cfg", ts,
             lambda e: e.get("op") == "Retrieve" and e["res"]["kind"] == "err",
             lambda e: e["res"].update({"kind": "exit"}), r"store\.outcome\.Retrieve\.exit", scratch, results)
        # ---- crash
        tcr = scratch.path("cr.trace")
        run([vh, "crash-run", "--out", tcr])
        case("crash: empty document after a crash", "TraceCrash", "TraceCrash.cfg", tcr,
             lambda e: e.get("op") == "Crash" and e["id_res"] == "err",
             lambda e: e.update({"id_res": "ok", "id_doc": {"tag": "doc"}}), r"crash\.atomic", scratch, results)
        case("crash: the store opens the final entry with truncation", "TraceCrash", "TraceCrash.cfg", tcr,
             lambda e: e.get("op") == "Syscall" and e["name"] == "openat" and e["target"] == "tmp",
             lambda e: e.update({"target": "final", "target2": "final", "flags": "O_CREAT|O_TRUNC|O_WRONLY"}), r"crash\.model\..*", scratch, results)
        # ---- translation
        tt = scratch.path("t.trace")
        run([vh, "tr-run", "--mode", "spdx", "--n", "30", "--out", tt])
        multi = lambda e: e.get("op") == "RT" and e["r1"]["kind"] == "ok" and len(e["doc"]["node_list"]["nodes"]) >= 2
        case("translate: a package is missing from the output", "TraceTranslate", "TraceTranslate.cfg", tt, multi,
             lambda e: e["wire"]["ids"].pop(), r"xl\.spdx\.(nodes|dangling)", scratch, results)
        case("translate: a node is lost on the way back", "TraceTranslate", "TraceTranslate.cfg", tt, multi,
             lambda e: e["doc1"]["node_list"]["nodes"].pop(), r"rt\.spdx\.nodes", scratch, results)
        case("translate: a name changes on the way back", "TraceTranslate", "TraceTranslate.cfg", tt, multi,
             lambda e: e["doc1"]["node_list"]["nodes"][0].update({"name": "renamed"}), r"rt\.spdx\.attr\.name", scratch, results)
        # ---- concurrency
        racebin = build_harness(race=True)
        tco = scratch.path("co.trace")
        run([vh, "conc-run", "--racebin", racebin, "--n", "20", "--out", tco])
        def flip(e):
            for c in e["calls"]:
                if c["op"] == "RGet":
                    c["res"] = "d-never-registered"
                    return
        case("conc: a lookup returns a driver nobody registered", "TraceConc", "TraceConc.cfg", tco,
             lambda e: e.get("op") == "HIST" and any(c["op"] == "RGet" for c in e["calls"]), flip, r"conc\.reader\.result", scratch, results)
        case("conc: a race report", "TraceConc", "TraceConc.cfg", tco, lambda e: e.get("op") == "RACE",
             lambda e: e.update({"races": 1}), r"conc\.data-race", scratch, results)
    except Infra as e:
        print("INFRASTRUCTURE ERROR:", e, file=sys.stderr)
        return 2
    finally:
        scratch.cleanup()
    bad = 0
    for name, outcome in results:
        print("%-62s %s" % (name, outcome))
        if outcome.startswith("ACCEPTED") or outcome.startswith("REJECTED"):
            bad += 1
    return 1 if bad else 0


if __name__ == "__main__":
    sys.exit(main())
