#!/usr/bin/env python3
"""tools/try_seeded.py <seeded dir> [extra property ids...]
Applies seeded/<id>/patch.diff to /repo, runs the quick check of the property it breaks (and of any extra
properties named), records exit codes and violating clauses in seeded/<id>/result.json, and always restores /repo."""
import json
import os
import re
import subprocess
import sys

d = os.path.abspath(sys.argv[1])
meta = json.load(open(os.path.join(d, "meta.json")))
props = [meta["property"]] + sys.argv[2:]
here = os.path.dirname(os.path.dirname(os.path.abspath(__file__)))
if subprocess.run(["git", "-C", "/repo", "status", "--porcelain"], capture_output=True, text=True).stdout.strip():
    sys.exit("/repo is not clean")
subprocess.run(["git", "-C", "/repo", "apply", os.path.join(d, "patch.diff")], check=True)
res = {}
try:
    for p in props:
        r = subprocess.run([os.path.join(here, "check"), p, "--tier", "quick"], capture_output=True, text=True, cwd=here)
        clauses = sorted(set(c for m in re.finditer(r"clauses=(\S+)", r.stdout) for c in m.group(1).split(",")))
        res[p] = {"exit": r.returncode, "violating_clauses": clauses,
                  "infra": (r.stderr[-600:] if r.returncode == 2 else "")}
        print(p, "exit", r.returncode, clauses, res[p]["infra"][:300])
finally:
    subprocess.run(["git", "-C", "/repo", "checkout", "--", "."], check=True)
    subprocess.run(["git", "-C", "/repo", "clean", "-fdq", "pkg", "internal", "test"], check=False)
json.dump(res, open(os.path.join(d, "result.json"), "w"), indent=1)
