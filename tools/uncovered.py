#!/usr/bin/env python3
"""tools/uncovered.py [path-substring...] - prints the source lines of the blocks build/coverage.txt reports as never executed."""
import collections, os, re, sys
here = os.path.dirname(os.path.dirname(os.path.abspath(__file__)))
cov = collections.defaultdict(dict)
for line in open(os.path.join(here, "build", "coverage.txt")):
    m = re.match(r"(.+):(\d+)\.(\d+),(\d+)\.(\d+) (\d+) (\d+)$", line.strip())
    if not m:
        continue
    f, l1, c1, l2, c2, n, cnt = m.groups()
    key = (int(l1), int(c1), int(l2), int(c2))
    cov[f][key] = max(cov[f].get(key, 0), int(cnt))
for f in sorted(cov):
    if "protobom/protobom/pkg" not in f or f.endswith(".pb.go") or "fakes" in f:
        continue
    if sys.argv[1:] and not any(a in f for a in sys.argv[1:]):
        continue
    path = f.replace("github.com/protobom/protobom", "/repo")
    src = open(path).read().split("\n")
    for (l1, c1, l2, c2), cnt in sorted(cov[f].items()):
        if cnt == 0:
            text = " | ".join(s.strip() for s in src[l1 - 1:l2] if s.strip())[:170]
            print("%s:%d-%d  %s" % (path.replace("/repo/", ""), l1, l2, text))
